/-
M3 — model of `src/fancy_layout_interpreting.rs`: `convert` and everything it calls.

One Lean function per Rust function.  Index expressions (`tuple[j]`, `alias_found_mappings[j][..]`,
`from_physical_row[char_i]`, `res[*i]`, `position[i]`) and the `usize` subtraction
`quantities[i]-1` are lookups that yield `Outcome.panic` when out of range / below zero; every
`Err(..)` is `Outcome.error`.  `Props/C14.lean` proves `panic` is never returned.

Maps:
* `alias_mappings : HashMap<String, Vec<&AliasMapping>>` (`find_alias_mappings`) is the function
  name ↦ the alias mappings with that target name, in layout order; `.get(name)` is `None` iff
  that list is empty (the Rust map only ever holds non-empty vectors).
* `alias_map : HashMap<String, usize>` is an association list in which a later `insert` shadows an
  earlier one (`lookupAlias` returns the most recent entry).
* `from_table : HashMap<FromSet, Vec<usize>>` is an association list from the canonical trigger
  (`FromSet::new`) to the indices pushed so far, in push order.
* `US_KEYBOARD_LAYOUT` and `CHAR_ACCESS_MAP` are the generated tables `Tables.rowTable`
  and `Tables.charTable`.
* `Vec::sort` on key codes is sorting by discriminant (derived `Ord` on a field-less enum compares
  discriminants; the harness checks that `Ord` agrees with the discriminant order on all 484
  codes); the sorted list is determined by the order alone, so insertion sort models it.

The `for combination in iterate_combinations(..)` loops are modelled as: first all tuples that
`MultiplyIter` yields (`multiply`, a fuelled iteration of the exact `next()` body), then the loop
body for each tuple in that order.  Rust interleaves `next()` and the body; the results are equal
because `next()` has no failure mode that depends on the body (its only one — an alias quantity of
0 — cannot occur, see `C14`).
-/
import TmVerif.Model.Parse

namespace TmVerif
namespace Convert
open Outcome Fancy TmVerif.Tables

/-! ## `MultiplyIter` -/

/-- The `for i in 0..quantities.len()` loop of `MultiplyIter::next` on (quantities, position) from
index `i` on, as a recursion over both vectors: `ok none` = "not found" (the iterator is done after
this element), `ok (some p)` = the new position.  Indices before the incremented one are reset to 0.
`position[i]` out of range and `quantities[i] - 1` with `quantities[i] = 0` are panics. -/
def advance : List Nat → List Nat → Outcome (Option (List Nat))
  | [], _ => ok none
  | _ :: _, [] => panic
  | q :: qs, p :: ps =>
    if q == 0 then panic
    else if p < q - 1 then ok (some ((p + 1) :: ps))
    else (advance qs ps).bind fun r => ok (r.map fun ps' => 0 :: ps')

/-- Calling `next()` until it returns `None`, collecting the elements.  `fuel` bounds the number of
calls; running out of fuel is reported as `panic` so that the panic-freedom theorem also covers
"the fuel given by `multiply` is enough". -/
def multiplyLoop (qs : List Nat) : Nat → List Nat → Outcome (List (List Nat))
  | 0, _ => panic
  | fuel + 1, pos =>
    (advance qs pos).bind fun r =>
    match r with
    | none => ok [pos]
    | some pos' => (multiplyLoop qs fuel pos').bind fun rest => ok (pos :: rest)

def product : List Nat → Nat
  | [] => 1
  | q :: qs => q * product qs

/-- `multiply(&quantities).collect()`: start at the all-zero position (`MultiplyIter::new`) -/
def multiply (qs : List Nat) : Outcome (List (List Nat)) :=
  multiplyLoop qs (product qs) (qs.map fun _ => 0)

/-! ## alias combinations -/

/-- `find_alias_mappings(f).get(name)` as a list (empty = `None`) -/
def aliasMappingsFor (F : Fancy.Layout) (name : List Char) : List AliasMapping :=
  F.filterMap fun m =>
    match m with
    | Mapping.alias a => if a.to.terminal == name then some a else none
    | _ => none

/-- `alias_mappings.get(alias)` -/
def getAlias (F : Fancy.Layout) (name : List Char) : Option (List AliasMapping) :=
  let l := aliasMappingsFor F name
  if l.isEmpty then none else some l

/-- `AliasCombinationIterable` -/
structure Comb where
  modifiers : List Modifier
  quantities : List Nat
  found : List (List AliasMapping)
  aliasMap : List (List Char × Nat)

def lookupAlias (name : List Char) : List (List Char × Nat) → Option Nat
  | [] => none
  | (n, i) :: rest => if n == name then some i else lookupAlias name rest

/-- the loop of `build_combinations`, with the three accumulators -/
def buildLoop (F : Fancy.Layout) : List Modifier → List Nat → List (List AliasMapping) → List (List Char × Nat) →
    Outcome (List Nat × List (List AliasMapping) × List (List Char × Nat))
  | [], qs, found, amap => ok (qs, found, amap)
  | Modifier.alias name :: ms, qs, found, amap =>
    (ofOption (getAlias F name)).bind fun mappings =>
    buildLoop F ms (qs ++ [mappings.length]) (found ++ [mappings]) ((name, qs.length) :: amap)
  | Modifier.key _ :: ms, qs, found, amap => buildLoop F ms qs found amap

/-- `build_combinations` -/
def buildCombinations (F : Fancy.Layout) (modifiers : List Modifier) : Outcome Comb :=
  (buildLoop F modifiers [] [] []).bind fun r => ok ⟨modifiers, r.1, r.2.1, r.2.2⟩

/-- `&self.it.alias_found_mappings[i][self.tuple[i]].from.keys` -/
def chosenKeys (c : Comb) (tuple : List Nat) (i : Nat) : Outcome (List Key) :=
  (unwrapO c.found[i]?).bind fun l =>
  (unwrapO tuple[i]?).bind fun t =>
  (unwrapO l[t]?).bind fun am => ok am.frm.keys

/-- the loop of `AliasCombination::from_modifiers` from alias counter `j` on -/
def fromModifiersLoop (c : Comb) (tuple : List Nat) : List Modifier → Nat → Outcome (List Key)
  | [], _ => ok []
  | Modifier.alias _ :: ms, j =>
    (chosenKeys c tuple j).bind fun keys =>
    (fromModifiersLoop c tuple ms (j + 1)).bind fun rest => ok (keys ++ rest)
  | Modifier.key k :: ms, j =>
    (fromModifiersLoop c tuple ms j).bind fun rest => ok (k :: rest)

/-- `AliasCombination::from_modifiers` -/
def fromModifiers (c : Comb) (tuple : List Nat) : Outcome (List Key) :=
  fromModifiersLoop c tuple c.modifiers 0

/-- `AliasCombination::reify_modifiers` -/
def reifyModifiers (c : Comb) (tuple : List Nat) : List Modifier → Outcome (List Key)
  | [] => ok []
  | Modifier.key k :: ms => (reifyModifiers c tuple ms).bind fun rest => ok (k :: rest)
  | Modifier.alias name :: ms =>
    (ofOption (lookupAlias name c.aliasMap)).bind fun i =>
    (chosenKeys c tuple i).bind fun keys =>
    (reifyModifiers c tuple ms).bind fun rest => ok (keys ++ rest)

/-- `AliasCombination::translate_single_to_keys` -/
def translateSingleToKeys (c : Comb) (tuple : List Nat) (to : SingleToKeys) : Outcome (List Key) :=
  match to.terminal with
  | Terminal.physical terminal =>
    (reifyModifiers c tuple to.initial).bind fun ks => ok (ks ++ [terminal])
  | Terminal.null => ok []

/-- the `match &single.repeat` of `convert_single` and `adjust_repeats` -/
def singleRepeat (c : Comb) (tuple : List Nat) : SingleRepeat → Outcome Repeat
  | SingleRepeat.normal => ok Repeat.normal
  | SingleRepeat.disabled => ok Repeat.disabled
  | SingleRepeat.special keys delay interval =>
    (translateSingleToKeys c tuple keys).bind fun ks => ok (Repeat.special ks delay interval)

/-! ## the four kinds of mapping -/

/-- `is_just_one_modifier` -/
def isJustOneModifier (ks : List Key) : Bool :=
  match ks with
  | [k] => isModifierKey k
  | _ => false

/-- `convert_alias` -/
def convertAlias (a : AliasMapping) : List TmVerif.Mapping :=
  if !isJustOneModifier a.frm.keys then [⟨a.frm.keys, a.to.initial, Repeat.normal, []⟩] else []

/-- the body of the loop of `convert_single` for one combination -/
def convertSingleOne (c : Comb) (s : SingleMapping) (tuple : List Nat) : Outcome TmVerif.Mapping :=
  (fromModifiers c tuple).bind fun fm =>
  (translateSingleToKeys c tuple s.to).bind fun to =>
  (singleRepeat c tuple s.rep).bind fun rep =>
  (reifyModifiers c tuple s.absorbing).bind fun absorbing =>
  ok ⟨fm ++ [s.frm.key], to, rep, absorbing⟩

/-- `convert_single` -/
def convertSingle (F : Fancy.Layout) (s : SingleMapping) : Outcome (List TmVerif.Mapping) :=
  (buildCombinations F s.frm.modifiers).bind fun c =>
  (multiply c.quantities).bind fun tuples =>
  mapM (convertSingleOne c s) tuples

/-- `US_KEYBOARD_LAYOUT.get(&row)`: the rows are stored in the table in the order ` 1 Q A Z -/
def rowIndex : Row → Nat
  | Row.grave => 0 | Row.one => 1 | Row.q => 2 | Row.a => 3 | Row.z => 4

def physicalRow (r : Row) : Option (List Key) := (rowTable[rowIndex r]?).map (·.2)

/-- `CHAR_ACCESS_MAP.get(&ch)` -/
def charAccessIn (c : Nat) : List (Nat × Bool × Nat) → Option (Bool × Key)
  | [] => none
  | (ch, sh, k) :: rest => if ch == c then some (sh, k) else charAccessIn c rest

def charAccess (ch : Char) : Option (Bool × Key) := charAccessIn ch.toNat charTable

/-- `find_right_shift` -/
def findRightShift (frm : List Key) : Bool := frm.contains RIGHTSHIFT

/-- `convert_row_to` -/
def convertRowTo (hasRightShift : Bool) (modifiers : List Key) (terminals : List Char) (i : Nat) :
    Outcome (Option (List Key)) :=
  if i ≥ terminals.length then ok none
  else
    (unwrapO terminals[i]?).bind fun ch =>
    if ch.toNat == 32 then ok none
    else
      match charAccess ch with
      | none => error
      | some (sh, k) =>
        ok (some (modifiers ++ (if sh then [if hasRightShift then RIGHTSHIFT else LEFTSHIFT] else []) ++ [k]))

/-- `RowRepeatTemplate` -/
inductive RowRepeatTemplate where
  | normal
  | disabled
  | special (modifiers : List Key) (terminal : List Char) (delay : Int) (interval : Int)

/-- the `match &row_mapping.repeat` that builds the template -/
def rowRepeatTemplate (c : Comb) (tuple : List Nat) (r : RowMapping) : Outcome RowRepeatTemplate :=
  match r.rep with
  | RowRepeat.normal => ok RowRepeatTemplate.normal
  | RowRepeat.disabled => ok RowRepeatTemplate.disabled
  | RowRepeat.special keys delay interval =>
    if keys.terminal.length > r.to.terminal.length then error
    else
      (reifyModifiers c tuple keys.initial).bind fun ms =>
      ok (RowRepeatTemplate.special ms keys.terminal delay interval)

/-- the `match &repeat_template` inside the character loop -/
def rowRepeatAt (hasRightShift : Bool) (t : RowRepeatTemplate) (i : Nat) : Outcome Repeat :=
  match t with
  | RowRepeatTemplate.normal => ok Repeat.normal
  | RowRepeatTemplate.disabled => ok Repeat.disabled
  | RowRepeatTemplate.special modifiers terminal delay interval =>
    (convertRowTo hasRightShift modifiers terminal i).bind fun r =>
    match r with
    | none => ok Repeat.normal
    | some keys => ok (Repeat.special keys delay interval)

/-- the `for char_i in 0..to_terminals.len()` loop of `convert_row`: `n` iterations starting at
index `i` -/
def rowCharLoop (c : Comb) (tuple : List Nat) (r : RowMapping) (fromModifiers toModifiers : List Key)
    (template : RowRepeatTemplate) (physical : List Key) (hasRightShift : Bool) :
    Nat → Nat → Outcome (List TmVerif.Mapping)
  | 0, _ => ok []
  | n + 1, i =>
    if i ≥ physical.length then error
    else
      (convertRowTo hasRightShift toModifiers r.to.terminal i).bind fun to =>
      match to with
      | some to =>
        (unwrapO physical[i]?).bind fun key =>
        (rowRepeatAt hasRightShift template i).bind fun rep =>
        (reifyModifiers c tuple r.absorbing).bind fun absorbing =>
        (rowCharLoop c tuple r fromModifiers toModifiers template physical hasRightShift n (i + 1)).bind fun rest =>
        ok (⟨fromModifiers ++ [key], to, rep, absorbing⟩ :: rest)
      | none => rowCharLoop c tuple r fromModifiers toModifiers template physical hasRightShift n (i + 1)

/-- the body of the outer loop of `convert_row` for one combination -/
def convertRowOne (c : Comb) (r : RowMapping) (tuple : List Nat) : Outcome (List TmVerif.Mapping) :=
  (fromModifiers c tuple).bind fun fm =>
  (reifyModifiers c tuple r.to.initial).bind fun toModifiers =>
  (rowRepeatTemplate c tuple r).bind fun template =>
  (ofOption (physicalRow r.frm.row)).bind fun physical =>
  rowCharLoop c tuple r fm toModifiers template physical (findRightShift fm) r.to.terminal.length 0

/-- `convert_row` -/
def convertRow (F : Fancy.Layout) (r : RowMapping) : Outcome (List TmVerif.Mapping) :=
  (buildCombinations F r.frm.modifiers).bind fun c =>
  (multiply c.quantities).bind fun tuples =>
  (mapM (convertRowOne c r) tuples).bind fun groups => ok groups.flatten

/-- `convert_mapping` -/
def convertMapping (F : Fancy.Layout) : Fancy.Mapping → Outcome (List TmVerif.Mapping)
  | Mapping.alias a => ok (convertAlias a)
  | Mapping.single s => convertSingle F s
  | Mapping.row r => convertRow F r
  | Mapping.repeatOnly _ => ok []

/-! ## `FromSet` and the table of triggers -/

def insertKey (k : Key) : List Key → List Key
  | [] => [k]
  | x :: xs => if x < k then x :: insertKey k xs else k :: x :: xs

/-- `Vec<KeyCode>::sort` -/
def sortKeys : List Key → List Key
  | [] => []
  | k :: ks => insertKey k (sortKeys ks)

/-- `FromSet::new`: all keys but the last sorted, then the last -/
def fromSet (keys : List Key) : List Key :=
  match keys.getLast? with
  | none => []
  | some last => sortKeys keys.dropLast ++ [last]

abbrev FromTable := List (List Key × List Nat)

/-- `from_table.get(&from_set)` -/
def tableGet (fs : List Key) : FromTable → Option (List Nat)
  | [] => none
  | (k, v) :: rest => if k == fs then some v else tableGet fs rest

/-- `match from_table.get_mut(&from_set) { Some(v) => v.push(i), None => insert(from_set, vec![i]) }` -/
def tablePush (fs : List Key) (i : Nat) : FromTable → FromTable
  | [] => [(fs, [i])]
  | (k, v) :: rest => if k == fs then (k, v ++ [i]) :: rest else (k, v) :: tablePush fs i rest

/-- the inner `for sm in sms` loop of the first pass of `convert` -/
def pushAll : List TmVerif.Mapping → List TmVerif.Mapping → FromTable → List TmVerif.Mapping × FromTable
  | [], res, table => (res, table)
  | sm :: sms, res, table => pushAll sms (res ++ [sm]) (tablePush (fromSet sm.frm) res.length table)

/-- the first pass of `convert` -/
def firstPass (F : Fancy.Layout) : List Fancy.Mapping → List TmVerif.Mapping → FromTable →
    Outcome (List TmVerif.Mapping × FromTable)
  | [], res, table => ok (res, table)
  | fm :: fms, res, table =>
    (convertMapping F fm).bind fun sms =>
    let r := pushAll sms res table
    firstPass F fms r.1 r.2

/-- `res[*i].repeat = repeat.clone()` -/
def setRepeatAt (rep : Repeat) : List TmVerif.Mapping → Nat → Outcome (List TmVerif.Mapping)
  | [], _ => panic
  | m :: ms, 0 => ok ({ m with rep := rep } :: ms)
  | m :: ms, i + 1 => (setRepeatAt rep ms i).bind fun ms' => ok (m :: ms')

/-- `for i in is { res[*i].repeat = repeat.clone() }` -/
def setRepeats (rep : Repeat) : List Nat → List TmVerif.Mapping → Outcome (List TmVerif.Mapping)
  | [], res => ok res
  | i :: is, res => (setRepeatAt rep res i).bind fun res' => setRepeats rep is res'

/-- the body of the loop of `adjust_repeats` for one combination -/
def adjustOne (table : FromTable) (c : Comb) (s : RepeatOnlySingleMapping) (res : List TmVerif.Mapping)
    (tuple : List Nat) : Outcome (List TmVerif.Mapping) :=
  (fromModifiers c tuple).bind fun fm =>
  let frm := fm ++ [s.frm.key]
  (singleRepeat c tuple s.rep).bind fun rep =>
  match tableGet (fromSet frm) table with
  | some is => setRepeats rep is res
  | none => ok (res ++ [⟨frm, frm, rep, []⟩])

def adjustLoop (table : FromTable) (c : Comb) (s : RepeatOnlySingleMapping) :
    List (List Nat) → List TmVerif.Mapping → Outcome (List TmVerif.Mapping)
  | [], res => ok res
  | tuple :: tuples, res => (adjustOne table c s res tuple).bind fun res' => adjustLoop table c s tuples res'

/-- `adjust_repeats` -/
def adjustRepeats (F : Fancy.Layout) (table : FromTable) (res : List TmVerif.Mapping) : Fancy.Mapping →
    Outcome (List TmVerif.Mapping)
  | Mapping.repeatOnly s =>
    (buildCombinations F s.frm.modifiers).bind fun c =>
    (multiply c.quantities).bind fun tuples =>
    adjustLoop table c s tuples res
  | _ => ok res

/-- the second pass of `convert` -/
def secondPass (F : Fancy.Layout) (table : FromTable) : List Fancy.Mapping → List TmVerif.Mapping →
    Outcome (List TmVerif.Mapping)
  | [], res => ok res
  | fm :: fms, res => (adjustRepeats F table res fm).bind fun res' => secondPass F table fms res'

/-- `has_repeated_key` -/
def hasRepeatedKey : List Key → Bool
  | [] => false
  | k :: ks => ks.contains k || hasRepeatedKey ks

/-- the final loop of `convert` -/
def noRepeatedKeys (res : List TmVerif.Mapping) : Bool :=
  res.all fun sm => !hasRepeatedKey sm.frm && !hasRepeatedKey sm.to

/-- `convert` -/
def convert (F : Fancy.Layout) : Outcome TmVerif.Layout :=
  (firstPass F F [] []).bind fun r =>
  (secondPass F r.2 F r.1).bind fun res =>
  if noRepeatedKeys res then ok res else error

end Convert

export Convert (convert)

end TmVerif
