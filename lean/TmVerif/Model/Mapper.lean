/-
M1 — model of `src/key_transforms.rs` (the key press/release state machine).

Import-free on purpose (the native driver links this file).
Every definition names the Rust function it mirrors.  Lists keep Rust's `Vec` order:
order is observable (event order inside a step, hand-over order), so it is part of the model.
Keys are `Nat` (kernel key codes); the theorems hold for every `Nat`, a superset of the 484 codes.
-/
namespace TmVerif

abbrev Key := Nat

/-- `events.rs: Event` -/
inductive Event where
  | pressed (k : Key)
  | released (k : Key)
deriving DecidableEq, Repr, Inhabited

/-- `keys.rs: Repeat` (`delay_ms`, `interval_ms` are `i32` in Rust; `Int` here, the mapper never computes with them) -/
inductive Repeat where
  | normal
  | disabled
  | special (keys : List Key) (delay : Int) (interval : Int)
deriving DecidableEq, Repr, Inhabited

/-- `keys.rs: Mapping` -/
structure Mapping where
  frm : List Key
  to : List Key
  rep : Repeat
  absorbing : List Key
deriving DecidableEq, Repr, Inhabited

abbrev Layout := List Mapping

/-- `key_transforms.rs: State` — same seven fields, same order. -/
structure State where
  inp : List Key          -- input_pressed_keys
  active : List Mapping   -- active_mappings
  pass : List Key         -- pass_through_keys
  mapped : List Key       -- mapped_output_keys
  absorbed : List Key     -- mapped_absorbed_keys
  absTrig : Option Key    -- absorbing_trigger
  repTrig : Option Key    -- repeating_trigger
deriving DecidableEq, Repr, Inhabited

def State.init : State := ⟨[], [], [], [], [], none, none⟩

/-- `key_transforms.rs: ResultingRepeat` -/
inductive RRepeat where
  | disabled
  | noChange
  | repeating (keys : List Key) (delay : Int) (interval : Int)
deriving DecidableEq, Repr, Inhabited

/-- `key_transforms.rs: StepResult` -/
structure StepResult where
  events : List Event
  rep : RRepeat
deriving DecidableEq, Repr, Inhabited

/-- The eight modifier codes of `is_action_key`:
LEFTSHIFT 42, RIGHTSHIFT 54, LEFTMETA 125, RIGHTMETA 126, LEFTCTRL 29, RIGHTCTRL 97, LEFTALT 56, RIGHTALT 100
(checked against the real function for all key codes by the correspondence suite). -/
def modifierCodes : List Key := [42, 54, 125, 126, 29, 97, 56, 100]

/-- `is_action_key` -/
def isActionKey (k : Key) : Bool := !modifierCodes.contains k

/-- `final_key` (Rust panics on an empty trigger: `none`). -/
def finalKey? (m : Mapping) : Option Key := m.frm.getLast?

/-- `is_supported` -/
def isSupported (trigger pressed absorbed : List Key) (newKey : Key) : Bool :=
  trigger.all fun k => (pressed.contains k && !absorbed.contains k) || k == newKey

/-- `fails_when_released` -/
def failsWhenReleased (trigger : List Key) (k : Key) : Bool := trigger.contains k

/-- `is_action_mapping` -/
def isActionMapping (m : Mapping) : Bool :=
  match m.to.getLast? with
  | none => false
  | some k => isActionKey k

/-- `produces_action_key` (added by the fix of finding D7): some output key is not a modifier. -/
def producesActionKey (m : Mapping) : Bool := m.to.any isActionKey

/-- `is_any_modifier` -/
def isAnyModifier (keys : List Key) : Bool := keys.any fun k => !isActionKey k

/-- inner loop of `release_action_mappings`: push the keys of `ks` (already reversed) that are in
`mapped` and not yet collected. -/
def collectKeys (mapped : List Key) : List Key → List Key → List Key
  | acc, [] => acc
  | acc, k :: ks =>
    if mapped.contains k && !acc.contains k then collectKeys mapped (acc ++ [k]) ks
    else collectKeys mapped acc ks

/-- outer loop of `release_action_mappings` -/
def keysToRelease (mapped : List Key) : List Key → List Mapping → List Key
  | acc, [] => acc
  | acc, m :: ms =>
    if isActionMapping m && decide (m.to.length > 1) && isAnyModifier m.to then
      keysToRelease mapped (collectKeys mapped acc m.to.reverse) ms
    else keysToRelease mapped acc ms

/-- `release_action_mappings` -/
def releaseActionMappings (s : State) : State × List Event :=
  let ktr := keysToRelease s.mapped [] s.active
  ({ s with mapped := s.mapped.filter (fun k => !ktr.contains k),
            pass := s.pass.filter (fun k => !ktr.contains k) },
   ktr.map Event.released)

/-- The `retain` closure of `consume_pass_through_keys` (called twice by `add_new_mapping`), in pass-through order:
returns (kept pass-through keys, keys moved to `mapped`, events). -/
def consume (m : Mapping) : List Key → List Key × List Key × List Event
  | [] => ([], [], [])
  | k :: ks =>
    let (keep, moved, evs) := consume m ks
    if m.frm.contains k || m.to.contains k then
      if !m.to.contains k then (keep, moved, Event.released k :: evs)
      else (keep, k :: moved, evs)
    else (k :: keep, moved, evs)

/-- one iteration of the `for new_key in &m.to` loop of `add_new_mapping` -/
def pressOne (s : State) (k : Key) : State × List Event :=
  if isActionKey k then
    if s.mapped.contains k then
      (s, [Event.released k, Event.pressed k])
    else if s.pass.contains k then
      ({ s with pass := s.pass.filter (fun k2 => k2 != k), mapped := s.mapped ++ [k] },
       [Event.released k, Event.pressed k])
    else
      ({ s with mapped := s.mapped ++ [k] }, [Event.pressed k])
  else
    if !s.mapped.contains k && !s.pass.contains k then
      ({ s with mapped := s.mapped ++ [k] }, [Event.pressed k])
    else (s, [])

/-- the `for new_key in &m.to` loop -/
def pressAll : State → List Key → State × List Event
  | s, [] => (s, [])
  | s, k :: ks =>
    let (s1, e1) := pressOne s k
    let (s2, e2) := pressAll s1 ks
    (s2, e1 ++ e2)

/-- the `for absorbed_key in &m.absorbing` loop -/
def addAbsorbed : List Key → List Key → List Key
  | acc, [] => acc
  | acc, k :: ks => if acc.contains k then addAbsorbed acc ks else addAbsorbed (acc ++ [k]) ks

/-- `release_all_action_keys` -/
def releaseAllActionKeys (s : State) : State × List Event :=
  let rel := s.pass.filter isActionKey ++ s.mapped.filter isActionKey
  ({ s with pass := s.pass.filter (fun k => !isActionKey k),
            mapped := s.mapped.filter (fun k => !isActionKey k) },
   rel.map Event.released)

/-- `still_used` / `still_shadowed` in `remove_mapping`, where `others` is the active list
without the mapping being removed. -/
def usedBy (others : List Mapping) (k : Key) : Bool := others.any fun m => m.to.contains k
def shadowedBy (others : List Mapping) (k : Key) : Bool := others.any fun m => m.frm.contains k

/-- The descending loop over `mapped_output_keys` in `remove_mapping`, given as a recursion over the
*reversed* list (so the head is the highest index).  Returns (keys handed over to pass-through in
push order, release events in push order).  A key that is still used stays in `mapped` (see
`removeMapping`). -/
def removeScan (inp : List Key) (others : List Mapping) (removedKey : Key) :
    List Key → List Key × List Event
  | [] => ([], [])
  | k :: ks =>
    let (ho, evs) := removeScan inp others removedKey ks
    if usedBy others k then (ho, evs)
    else if inp.contains k && k != removedKey then
      if !shadowedBy others k then (k :: ho, evs)
      else (ho, Event.released k :: evs)
    else (ho, Event.released k :: evs)

/-- `remove_mapping(state, i, removed_key)` where the active list is `before ++ [m] ++ after`
(`i = before.length`).  The state passed in has `active` still containing `m`;
the result has it removed. -/
def removeMapping (s : State) (before after : List Mapping) (removedKey : Key) : State × List Event :=
  let others := before ++ after
  let (ho, evs) := removeScan s.inp others removedKey s.mapped.reverse
  ({ s with mapped := s.mapped.filter (usedBy others),
            pass := s.pass ++ ho,
            active := others },
   evs)

/-- The `while i >= 0` loop shared by `newly_release` and `release_absorbed_keys`:
visits the active list from the last index down; `revBefore` is the not-yet-visited prefix reversed,
`after` the already visited (and kept) suffix. -/
def dropFailing (k : Key) : State → List Mapping → List Mapping → State × List Event
  | s, [], after => ({ s with active := after }, [])
  | s, m :: revBefore, after =>
    if failsWhenReleased m.frm k then
      let (s1, e1) := removeMapping s revBefore.reverse after k
      let (s2, e2) := dropFailing k s1 revBefore after
      (s2, e1 ++ e2)
    else dropFailing k s revBefore (m :: after)

/-- The `for i in (0 .. pass.len()).rev() { if pass[i] == k { remove; break } }` loop:
removes the *last* occurrence of `k`. -/
def removeLast (k : Key) (l : List Key) : List Key := (l.reverse.erase k).reverse

/-- `if pass.contains(k) { emit Released(k); remove its last occurrence }` followed by
`input_pressed_keys.retain(|k2| k2 != k)` — the tail shared by `newly_release` and by the body of the
`for k in to_remove` loop of `release_absorbed_keys`. -/
def releaseTail (s : State) (k : Key) : State × List Event :=
  let (s2, e2) :=
    if s.pass.contains k then ({ s with pass := removeLast k s.pass }, [Event.released k])
    else (s, [])
  ({ s2 with inp := s2.inp.filter (fun k2 => k2 != k) }, e2)

/-- The code shared (textually duplicated in Rust) by `newly_release` and the body of the
`for k in to_remove` loop of `release_absorbed_keys`: drop every active mapping whose trigger
contains `k`, release `k` if it is passed through, forget `k` as input. -/
def releaseKey (s : State) (k : Key) : State × List Event :=
  let (s1, e1) := dropFailing k s s.active.reverse []
  let (s2, e2) := releaseTail s1 k
  (s2, e1 ++ e2)

def releaseAbsorbedLoop : State → List Key → State × List Event
  | s, [] => (s, [])
  | s, k :: ks =>
    let (s1, e1) := releaseKey s k
    let (s2, e2) := releaseAbsorbedLoop s1 ks
    (s2, e1 ++ e2)

/-- `release_absorbed_keys` -/
def releaseAbsorbedKeys (s : State) : State × List Event :=
  let toRemove := s.absorbed
  releaseAbsorbedLoop { s with absorbed := [], absTrig := none } toRemove

/-- `should_absorb` (computed identically in `add_new_mapping` and `newly_press`) -/
def shouldAbsorb (s : State) (newKey : Key) : Bool :=
  match s.absTrig with
  | some t => t != newKey
  | none => true

/-- `consume_pass_through_keys` (the `retain` over the pass-through keys): called at the top of
`add_new_mapping` and, since the fix of finding D5, once more right after `release_absorbed_keys`. -/
def addPhase1 (s : State) (m : Mapping) : State × List Event :=
  let c := consume m s.pass
  ({ s with pass := c.1, mapped := s.mapped ++ c.2.1 }, c.2.2)

/-- `add_new_mapping`, second part: `if produces_action_key(m) { release_action_mappings }`, then
`if should_absorb && (produces_action_key(m) || m.absorbing.len() > 0) { release_absorbed_keys; consume_pass_through_keys }`
(with the fix of D5: the second `consume_pass_through_keys` after `release_absorbed_keys`; with the fix of D7: the
condition is `produces_action_key(m)` — any output key is a non-modifier — where it was `is_action_mapping(m)`, which
looks at the last output key only; with the fix of D6: keys absorbed under ANOTHER trigger are let go also when the
firing mapping is itself absorbing, not only when it presses a non-modifier key — so every key in
`mapped_absorbed_keys` was absorbed under the current `absorbing_trigger`). -/
def addPhase2 (s : State) (newKey : Key) (m : Mapping) : State × List Event :=
  let r1 := if producesActionKey m then releaseActionMappings s else (s, [])
  if shouldAbsorb r1.1 newKey && (producesActionKey m || decide (m.absorbing.length > 0)) then
    let r2 := releaseAbsorbedKeys r1.1
    -- fix of D5: `release_absorbed_keys` can hand keys back to pass-through; consume again
    let r3 := addPhase1 r2.1 m
    (r3.1, r1.2 ++ r2.2 ++ r3.2)
  else r1

/-- `add_new_mapping`, third part: the press loop over `m.to`, the absorbing bookkeeping, and the
push of `m` onto the active list. -/
def addPhase3 (s : State) (newKey : Key) (m : Mapping) : State × List Event :=
  let r := pressAll s m.to
  let s1 := { r.1 with absorbed := addAbsorbed r.1.absorbed m.absorbing }
  let s2 := if m.absorbing.length > 0 then { s1 with absTrig := some newKey } else s1
  ({ s2 with active := s2.active ++ [m] }, r.2)

/-- `add_new_mapping`, last part: the `match &m.repeat`. -/
def addPhase4 (s : State) (newKey : Key) (m : Mapping) : State × List Event × RRepeat :=
  match m.rep with
  | Repeat.normal => (s, [], RRepeat.disabled)
  | Repeat.disabled =>
    let r := releaseAllActionKeys s
    (r.1, r.2, RRepeat.disabled)
  | Repeat.special keys delay interval =>
    let r := releaseAllActionKeys s
    ({ r.1 with repTrig := some newKey }, r.2, RRepeat.repeating keys delay interval)

/-- `add_new_mapping` -/
def addNewMapping (s : State) (newKey : Key) (m : Mapping) : State × StepResult :=
  let r1 := addPhase1 s m
  let r2 := addPhase2 r1.1 newKey m
  let r3 := addPhase3 r2.1 newKey m
  let r4 := addPhase4 r3.1 newKey m
  (r4.1, ⟨r1.2 ++ r2.2 ++ r3.2 ++ r4.2.1, r4.2.2⟩)

/-- The group `mappings.get(&k)` of the hashed layout: the layout's mappings whose final trigger
key is `k`, in layout order (`make_hashed_layout` pushes in layout order). -/
def group (L : Layout) (k : Key) : List Mapping := L.filter fun m => finalKey? m == some k

/-- the pass-through branch of `newly_press` (`if !any_hit { if !pass.contains(&k) { … } }`) -/
def passThrough (s : State) (k : Key) : State × List Event :=
  let r :=
    if isActionKey k then
      let r1 := releaseActionMappings s
      let r2 := releaseAbsorbedKeys r1.1
      (r2.1, r1.2 ++ r2.2)
    else (s, [])
  ({ r.1 with pass := r.1.pass ++ [k] }, r.2 ++ [Event.pressed k])

/-- the state after the first two statements of `newly_press` -/
def pressPrep (s : State) (k : Key) : State :=
  { s with absorbed := s.absorbed.filter (fun k2 => k2 != k), repTrig := none }

/-- the mapping `newly_press` fires, if any: the last mapping of the group that is supported -/
def findMapping (L : Layout) (s : State) (k : Key) : Option Mapping :=
  let s0 := pressPrep s k
  let absorbedKeys := if shouldAbsorb s0 k then s0.absorbed else []
  (group L k).reverse.find? (fun m => isSupported m.frm s0.inp absorbedKeys k)

/-- `newly_press` -/
def newlyPress (L : Layout) (s : State) (k : Key) : State × StepResult :=
  let s0 := pressPrep s k
  match findMapping L s k with
  | some m =>
    let r := addNewMapping s0 k m
    ({ r.1 with inp := r.1.inp ++ [k] }, r.2)
  | none =>
    let anyHit := s0.active.any fun m => m.frm.contains k || m.to.contains k
    if !anyHit && !s0.pass.contains k then
      let r := passThrough s0 k
      ({ r.1 with inp := r.1.inp ++ [k] }, ⟨r.2, RRepeat.disabled⟩)
    else
      ({ s0 with inp := s0.inp ++ [k] }, ⟨[], RRepeat.disabled⟩)

/-- `newly_release` -/
def newlyRelease (s : State) (k : Key) : State × StepResult :=
  let (s1, e1) := releaseKey s k
  (s1, ⟨e1, RRepeat.disabled⟩)

/-- `Mapper::step` -/
def step (L : Layout) (s : State) (e : Event) : State × StepResult :=
  match e with
  | Event.pressed k =>
    if !s.inp.contains k then newlyPress L s k else (s, ⟨[], RRepeat.noChange⟩)
  | Event.released k =>
    if s.inp.contains k then newlyRelease s k else (s, ⟨[], RRepeat.noChange⟩)

/-- the `for k in to_release` loop of `release_all` -/
def releaseAllLoop (L : Layout) : State → List Key → State × List Event
  | s, [] => (s, [])
  | s, k :: ks =>
    let (s1, r) := step L s (Event.released k)
    let (s2, e2) := releaseAllLoop L s1 ks
    (s2, r.events ++ e2)

/-- `Mapper::release_all` -/
def releaseAll (L : Layout) (s : State) : State × List Event :=
  releaseAllLoop L s s.inp

/-- What `make_hashed_layout` insists on (it panics otherwise): no key twice in `from`, no key
twice in `to`; and `final_key` needs a non-empty `from`. -/
def Mapping.wf (m : Mapping) : Bool := m.frm != [] && m.frm.Nodup && m.to.Nodup

def Layout.wf (L : Layout) : Bool := L.all Mapping.wf

/-- `Mapper::for_layout`: `none` models the panic. -/
def forLayout (L : Layout) : Option State := if Layout.wf L then some State.init else none

/-- Run a history from a state, collecting the per-step results. -/
def run (L : Layout) : State → List Event → State × List StepResult
  | s, [] => (s, [])
  | s, e :: es =>
    let (s1, r) := step L s e
    let (s2, rs) := run L s1 es
    (s2, r :: rs)

end TmVerif
