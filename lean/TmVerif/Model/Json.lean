/-
M3 — `serde_json::Value` as the layout loader sees it.

Import-free (linked into the native driver).

* Strings are `List Char` (a Rust `String` is a sequence of Unicode scalar values, and so is a Lean
  `List Char`).
* `Value::Object` is a `BTreeMap<String, Value>` (serde_json without `preserve_order`): its keys are
  distinct and iterate in ascending order (`str` order = byte order of the UTF-8 text = order of
  the code point sequences).  Here an object is an association list; `Json.wfObj` states "keys
  strictly ascending at every object, recursively".  It is a predicate, not part of the type: the
  loader model is total on all association lists and the panic-freedom theorems need no such
  hypothesis.  (A duplicate key in the *text* keeps the last value — that happens in serde_json's text
  parser, before a `Value` exists, and is exercised by the harness on the real loader only.)
* `Value::Number` is `PosInt(u64) | NegInt(i64) | Float(f64)`; `JNum.int i` carries the mathematical
  value of a `PosInt`/`NegInt`, `JNum.float` is any float.  Which literal becomes which is
  serde_json's text parser (integers outside [-2^63, 2^64), anything with `.`/`e`, and `-0` are
  floats); the harness prints real `Value`s, so the model starts after that stage.
-/
namespace TmVerif

inductive JNum where
  | int (i : Int)
  | float
deriving DecidableEq, Repr, Inhabited

inductive Json where
  | null
  | bool (b : Bool)
  | num (n : JNum)
  | str (s : List Char)
  | arr (xs : List Json)
  | obj (kvs : List (List Char × Json))
deriving Repr, Inhabited

/-- `Number::as_i64`: `Some` for a `NegInt`, for a `PosInt` that fits `i64`; `None` for floats
(also for `1.0`) and for a `PosInt` above `i64::MAX`. -/
def JNum.asI64 : JNum → Option Int
  | JNum.int i => if -9223372036854775808 ≤ i ∧ i ≤ 9223372036854775807 then some i else none
  | JNum.float => none

/-- `x as i32` for an `i64` `x`: keep the low 32 bits, two's complement. -/
def toI32 (i : Int) : Int := (i + 2147483648) % 4294967296 - 2147483648

/-- the values an `i32` can hold -/
def inI32 (i : Int) : Bool := decide (-2147483648 ≤ i) && decide (i ≤ 2147483647)

/-- strict lexicographic order of code point sequences (= `str::cmp` = Less) -/
def strLt : List Char → List Char → Bool
  | [], [] => false
  | [], _ :: _ => true
  | _ :: _, [] => false
  | a :: as, b :: bs => if a.toNat < b.toNat then true else if a.toNat == b.toNat then strLt as bs else false

/-- `Map::get` -/
def Json.lookup (k : List Char) : List (List Char × Json) → Option Json
  | [] => none
  | (k', v) :: rest => if k' == k then some v else Json.lookup k rest

/-- `Map::contains_key` -/
def Json.hasKey (k : List Char) (kvs : List (List Char × Json)) : Bool := (Json.lookup k kvs).isSome

/-- insertion into a sorted list of strings (`Vec<&str>::sort` — the result of sorting is determined
by the order alone, so any sorting algorithm models it) -/
def insertStr (s : List Char) : List (List Char) → List (List Char)
  | [] => [s]
  | t :: ts => if strLt t s then t :: insertStr s ts else s :: t :: ts

def sortStrs : List (List Char) → List (List Char)
  | [] => []
  | s :: ss => insertStr s (sortStrs ss)

/-- `has_exactly_keys`: the sorted key list equals the sorted list of expected names -/
def hasExactlyKeys (kvs : List (List Char × Json)) (check : List (List Char)) : Bool :=
  sortStrs (kvs.map (·.1)) == sortStrs check

/-- `has_at_least_keys` -/
def hasAtLeastKeys (kvs : List (List Char × Json)) (check : List (List Char)) : Bool :=
  check.all fun k => Json.hasKey k kvs

/-- keys strictly ascending -/
def keysAscending : List (List Char) → Bool
  | [] => true
  | [_] => true
  | a :: b :: rest => strLt a b && keysAscending (b :: rest)

mutual
/-- every object inside has strictly ascending (hence distinct) keys — what a `BTreeMap` guarantees -/
def Json.wfObj : Json → Bool
  | Json.null => true
  | Json.bool _ => true
  | Json.num _ => true
  | Json.str _ => true
  | Json.arr xs => Json.wfObjList xs
  | Json.obj kvs => keysAscending (kvs.map (·.1)) && Json.wfObjFields kvs
def Json.wfObjList : List Json → Bool
  | [] => true
  | x :: xs => Json.wfObj x && Json.wfObjList xs
def Json.wfObjFields : List (List Char × Json) → Bool
  | [] => true
  | (_, v) :: rest => Json.wfObj v && Json.wfObjFields rest
end

end TmVerif
