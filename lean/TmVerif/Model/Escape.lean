/-
Model of the systemd-unit writer of /repo/src/udev_utils.rs (`escape_one_char`,
`systemd_arg_escape`, `build_exclude_text`, `build_service_text`), branch by branch.
Import-free.  Text is `List Char` (a Rust `char` and a Lean `Char` are both a Unicode scalar value).

Correspondence with the real functions is checked by the harness suite "escape"
(`escape_one_char` on every scalar value, `build_service_text` on generated pattern lists).
-/

namespace TmVerif

/-- Rust `char::is_control`: general category Cc = U+0000..U+001F, U+007F..U+009F -/
def isControl (c : Char) : Bool :=
  c.toNat ≤ 0x1f || (0x7f ≤ c.toNat && c.toNat ≤ 0x9f)

/-- one lower-case hex digit (argument taken mod 16) -/
def hexDigit (d : Nat) : Char :=
  if d % 16 < 10 then Char.ofNat (48 + d % 16) else Char.ofNat (87 + d % 16)

/-- exactly `width` lower-case hex digits of `n`, most significant first (high digits dropped) -/
def hexFixed : Nat → Nat → List Char
  | 0, _ => []
  | w + 1, n => hexFixed w (n / 16) ++ [hexDigit (n % 16)]

/-- Rust `format!("{:0width$x}", n)`: lower-case hex, zero padded to at least `width` digits -/
def hexPad (width n : Nat) : List Char :=
  if n < 16 ^ width then hexFixed width n else Nat.toDigits 16 n

/-- `escape_one_char` -/
def escapeOneChar (c : Char) : List Char :=
  if c = '\\' then ['\\', '\\']
  else if c = ' ' then ['\\', 's']
  else if c = Char.ofNat 0x07 then ['\\', 'a']
  else if c = Char.ofNat 0x08 then ['\\', 'b']
  else if c = '\n' then ['\\', 'n']
  else if c = '\r' then ['\\', 'r']
  else if c = '\t' then ['\\', 't']
  else if c = '"' then ['\\', '"']
  else if c = '\'' then ['\\', '\'']
  else if c = '%' then ['%', '%']
  else if c = '$' then ['$', '$']
  else if c = ';' then ['\\', 'x', '3', 'b']
  else if c = '*' then ['\\', 'x', '2', 'a']
  else if c = '?' then ['\\', 'x', '3', 'f']
  else if isControl c then
    let i := c.toNat
    if i < 128 then ['\\', 'x'] ++ hexPad 2 i
    else if i < 0x10000 then ['\\', 'u'] ++ hexPad 4 i
    else ['\\', 'U'] ++ hexPad 8 i
  else [c]

/-- `systemd_arg_escape` -/
def systemdArgEscape (text : List Char) : List Char :=
  text.flatMap escapeOneChar

/-- `chunks.join(" ")` -/
def joinSpace : List (List Char) → List Char
  | [] => []
  | [x] => x
  | x :: y :: r => x ++ ' ' :: joinSpace (y :: r)

/-- `build_exclude_text` -/
def buildExcludeText (excludes : List (List Char)) : List Char :=
  joinSpace (excludes.map fun p => "--exclude ".toList ++ systemdArgEscape p)

/-- the `format!` template of `build_service_text` up to `ExecStart=` -/
def unitHeader : List Char :=
  "[Unit]\nDescription=Totalmapper\n\n[Service]\nType=simple\nUser=totalmapper\nGroup=input\nExecStart=".toList

/-- … from there up to the `{}` -/
def execPrefix : List Char :=
  "/usr/bin/totalmapper remap --verbose --layout-file /etc/totalmapper.json --only-if-keyboard ".toList

/-- … and after the `{}`, without the final newline -/
def execSuffix : List Char :=
  " --dev-file /%I".toList

/-- the value of the `ExecStart=` line (without the terminating newline).  With no excludes there
are two spaces in a row, as in the Rust `format!`. -/
def execStartValue (excludes : List (List Char)) : List Char :=
  execPrefix ++ buildExcludeText excludes ++ execSuffix

/-- `build_service_text`: the whole unit file -/
def buildServiceText (excludes : List (List Char)) : List Char :=
  unitHeader ++ execStartValue excludes ++ ['\n']

/-- the argument vector the service is meant to be started with (`inst` = instance name, `%I`) -/
def intendedArgs (excludes : List (List Char)) (inst : List Char) : List (List Char) :=
  ["/usr/bin/totalmapper", "remap", "--verbose", "--layout-file", "/etc/totalmapper.json",
    "--only-if-keyboard"].map String.toList
  ++ excludes.flatMap (fun p => ["--exclude".toList, p])
  ++ ["--dev-file".toList, '/' :: inst]

end TmVerif
