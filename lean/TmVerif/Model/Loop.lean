/-
M2 — model of `do_remapping_loop_one_device` (src/remapping_loop.rs), the per-device event loop.

An OPEN reactive model: the loop is a machine that is always either finished or waiting for the
answer to exactly one call on its environment (the `Driver` trait: register_poll / poll /
next_keyboard / next_tablet / send, plus the two things the Rust does behind the trait's back:
`Instant::now()` and `thread::sleep`).  `pending` is the call it is blocked on, `advance` takes the
answer.  Time is a parameter: `now` is answered by the environment with an arbitrary natural
(nanoseconds).  Import-free apart from the mapper model.
-/
import TmVerif.Model.Mapper

namespace TmVerif

inductive Dev where
  | keyboard
  | tablet
deriving DecidableEq, Repr, Inhabited

/-- `PollResult` -/
inductive PollRes where
  | deviceEvent (devs : List Dev)
  | timedOut
  | interrupted
deriving DecidableEq, Repr, Inhabited

/-- `TableModeEvent` -/
inductive TabletEv where
  | on
  | off
deriving DecidableEq, Repr, Inhabited

/-- `Next<T>` -/
inductive Next (α : Type) where
  | end_
  | busy
  | one (a : α)
deriving DecidableEq, Repr, Inhabited

/-- why a `send` happens (ghost tag; the payload is what the driver sees) -/
inductive SendKind where
  | step     -- output of Mapper::step
  | chord    -- timer repeat chord
  | relAll   -- Mapper::release_all on a tablet-mode change
deriving DecidableEq, Repr, Inhabited

/-- a call of the loop on its environment -/
inductive Call where
  | registerPoll
  | now                                   -- Instant::now()
  | poll (timeout : Option Nat)           -- nanoseconds
  | nextKeyboard
  | nextTablet
  | send (kind : SendKind) (evs : List Event)
  | sleep (ms : Nat)                      -- thread::sleep
deriving DecidableEq, Repr, Inhabited

/-- an answer of the environment -/
inductive Resp where
  | unit                                  -- Ok(()) of register_poll / send; return of sleep
  | time (t : Nat)                        -- Instant::now(), nanoseconds
  | poll (r : PollRes)
  | kbd (n : Next Event)
  | tab (n : Next TabletEv)
  | err (msg : String)                    -- Err(msg) from any Driver method
deriving DecidableEq, Repr, Inhabited

/-- `WorkingRepeat` (`next_wakeup` in nanoseconds) -/
inductive WorkingRepeat where
  | idle
  | repeating (keys : List Key) (nextWakeup : Nat) (interval : Int)
deriving DecidableEq, Repr, Inhabited

/-- the loop's local variables -/
structure LoopVars where
  m : State                 -- mapper.state
  rep : WorkingRepeat       -- working_repeat
  inTablet : Bool           -- in_tablet_mode
  restartCount : Nat        -- restart_count (i32 in Rust; see DESIGN: overflow after 21 interrupts in a row is not modelled)
deriving DecidableEq, Repr, Inhabited

/-- control point = the call the loop is blocked on, with what it needs to continue -/
inductive Ctl where
  | start                                                        -- register_poll pending
  | pollNow                                                      -- Instant::now() for the poll timeout pending
  | polling (timeout : Option Nat)                               -- poll pending
  | sendChord (evs : List Event)                                 -- send(chord) pending
  | sleeping (ms : Nat)                                          -- thread::sleep pending
  | readKbd (rest : List Dev)                                    -- next_keyboard pending
  | sendStep (rest : List Dev) (evs : List Event) (rr : RRepeat) -- send(step output) pending
  | stepNow (rest : List Dev) (keys : List Key) (delay interval : Int) -- Instant::now() after a Repeating step pending
  | readTab (rest : List Dev)                                    -- next_tablet pending
  | sendRel (rest : List Dev) (evs : List Event)                 -- send(release_all output) pending
  | done (err : Option String)                                   -- returned: Ok(()) = none, Err(msg) = some msg
  | bad                                                          -- ill-typed answer (cannot happen with a real Driver)
deriving DecidableEq, Repr, Inhabited

structure Machine where
  v : LoopVars
  c : Ctl
deriving DecidableEq, Repr, Inhabited

/-- `x as u64` for an `i32` -/
def asU64 (x : Int) : Nat := (x % 18446744073709551616).toNat

def msToNs (ms : Nat) : Nat := ms * 1000000

def Machine.init (L : Layout) : Option Machine :=
  match forLayout L with
  | some s => some ⟨⟨s, WorkingRepeat.idle, false, 0⟩, Ctl.start⟩
  | none => none    -- Mapper::for_layout panics

/-- the call the machine is blocked on -/
def pending (x : Machine) : Option Call :=
  match x.c with
  | Ctl.start => some Call.registerPoll
  | Ctl.pollNow => some Call.now
  | Ctl.polling t => some (Call.poll t)
  | Ctl.sendChord evs => some (Call.send SendKind.chord evs)
  | Ctl.sleeping ms => some (Call.sleep ms)
  | Ctl.readKbd _ => some Call.nextKeyboard
  | Ctl.sendStep _ evs _ => some (Call.send SendKind.step evs)
  | Ctl.stepNow _ _ _ _ => some Call.now
  | Ctl.readTab _ => some Call.nextTablet
  | Ctl.sendRel _ evs => some (Call.send SendKind.relAll evs)
  | Ctl.done _ => none
  | Ctl.bad => none

/-- top of the inner `loop`: compute the timeout (needs the clock only when repeating) -/
def toPollTop (v : LoopVars) : Machine :=
  match v.rep with
  | WorkingRepeat.idle => ⟨v, Ctl.polling none⟩
  | WorkingRepeat.repeating _ _ _ => ⟨v, Ctl.pollNow⟩

/-- the `for dev_ev in dev_evs` loop -/
def drain (v : LoopVars) : List Dev → Machine
  | [] => toPollTop v
  | Dev.keyboard :: rest => ⟨v, Ctl.readKbd rest⟩
  | Dev.tablet :: rest => ⟨v, Ctl.readTab rest⟩

/-- `working_repeat = match step_out.repeat { … }` -/
def afterStep (v : LoopVars) (rest : List Dev) (rr : RRepeat) : Machine :=
  match rr with
  | RRepeat.repeating keys d i => ⟨v, Ctl.stepNow rest keys d i⟩
  | RRepeat.disabled => ⟨{ v with rep := WorkingRepeat.idle }, Ctl.readKbd rest⟩
  | RRepeat.noChange => ⟨v, Ctl.readKbd rest⟩

/-- `Mapper::is_output_held` -/
def isOutputHeld (s : State) (k : Key) : Bool := s.pass.contains k || s.mapped.contains k

/-- the repeat chord of the `TimedOut` arm: the repeat keys not held on the output, pressed in listed
order, released in reverse -/
def chordOf (s : State) (keys : List Key) : List Event :=
  (keys.filter (fun k => !isOutputHeld s k)).map Event.pressed ++
  (keys.reverse.filter (fun k => !isOutputHeld s k)).map Event.released

/-- the answer to the pending call arrives -/
def advance (L : Layout) (x : Machine) (r : Resp) : Machine :=
  match r with
  | Resp.err msg =>
    (match x.c with
     | Ctl.done _ => ⟨x.v, Ctl.bad⟩
     | Ctl.bad => ⟨x.v, Ctl.bad⟩
     | Ctl.pollNow => ⟨x.v, Ctl.bad⟩           -- Instant::now() and sleep cannot fail
     | Ctl.stepNow _ _ _ _ => ⟨x.v, Ctl.bad⟩
     | Ctl.sleeping _ => ⟨x.v, Ctl.bad⟩
     | _ => ⟨x.v, Ctl.done (some msg)⟩)   -- every driver call is followed by `?`
  | _ =>
  match x.c, r with
  | Ctl.start, Resp.unit => toPollTop x.v
  | Ctl.pollNow, Resp.time now =>
    (match x.v.rep with
     | WorkingRepeat.repeating _ nw _ =>
       ⟨x.v, Ctl.polling (some (if now ≥ nw then msToNs 1 else nw - now))⟩
     | WorkingRepeat.idle => ⟨x.v, Ctl.bad⟩)
  | Ctl.polling _, Resp.poll PollRes.timedOut =>
    (match x.v.rep with
     | WorkingRepeat.idle => toPollTop x.v
     | WorkingRepeat.repeating keys nw iv =>
       if !x.v.inTablet then
         let chord := chordOf x.v.m keys
         let v' := { x.v with rep := WorkingRepeat.repeating keys (nw + msToNs (asU64 iv)) iv }
         if chord.isEmpty then toPollTop v' else ⟨v', Ctl.sendChord chord⟩
       else toPollTop { x.v with rep := WorkingRepeat.idle })
  | Ctl.polling _, Resp.poll PollRes.interrupted =>
    let v' := { x.v with restartCount := x.v.restartCount + 1 }
    if v'.restartCount > 1 then ⟨v', Ctl.sleeping (1000 * 2 ^ v'.restartCount)⟩ else toPollTop v'
  | Ctl.polling _, Resp.poll (PollRes.deviceEvent devs) =>
    drain { x.v with restartCount := 0 } devs
  | Ctl.sendChord _, Resp.unit => toPollTop x.v
  | Ctl.sleeping _, Resp.unit => toPollTop x.v
  | Ctl.readKbd rest, Resp.kbd Next.busy => drain x.v rest
  | Ctl.readKbd _, Resp.kbd Next.end_ => ⟨x.v, Ctl.done none⟩
  | Ctl.readKbd rest, Resp.kbd (Next.one ev) =>
    if !x.v.inTablet then
      let out := step L x.v.m ev
      let v' := { x.v with m := out.1 }
      if out.2.events.isEmpty then afterStep v' rest out.2.rep
      else ⟨v', Ctl.sendStep rest out.2.events out.2.rep⟩
    else ⟨x.v, Ctl.readKbd rest⟩
  | Ctl.sendStep rest _ rr, Resp.unit => afterStep x.v rest rr
  | Ctl.stepNow rest keys d i, Resp.time now =>
    ⟨{ x.v with rep := WorkingRepeat.repeating keys (now + msToNs (asU64 d)) i }, Ctl.readKbd rest⟩
  | Ctl.readTab rest, Resp.tab Next.busy => drain x.v rest
  | Ctl.readTab _, Resp.tab Next.end_ => ⟨x.v, Ctl.done none⟩
  | Ctl.readTab rest, Resp.tab (Next.one tev) =>
    let out := releaseAll L x.v.m
    let v' := { x.v with m := out.1, rep := WorkingRepeat.idle,
                         inTablet := (match tev with | TabletEv.on => true | TabletEv.off => false) }
    if out.2.isEmpty then ⟨v', Ctl.readTab rest⟩ else ⟨v', Ctl.sendRel rest out.2⟩
  | Ctl.sendRel rest _, Resp.unit => ⟨x.v, Ctl.readTab rest⟩
  | _, _ => ⟨x.v, Ctl.bad⟩

/-- run against a script of answers; returns the calls made (in order) and the final machine.
Stops when the machine has returned or the script is exhausted. -/
def runScript (L : Layout) : Machine → List Resp → List Call × Machine
  | x, [] => ([], x)
  | x, r :: rs =>
    match pending x with
    | none => ([], x)
    | some c =>
      let (cs, x') := runScript L (advance L x r) rs
      (c :: cs, x')

end TmVerif
