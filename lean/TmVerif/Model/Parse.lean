/-
M3 — model of `src/layout_parsing_formatting.rs`: `parse_layout_from_json` and everything it calls.

One Lean function per Rust function, same branches in the same order.

* Error messages are not modelled: every `Err(..)` is `Outcome.error`.
* `Outcome.panic` is an explicit third outcome.  It is produced exactly where the Rust code would
  panic if the guard in front of it were missing: `.get(k).unwrap()` is `unwrapO (lookup …)`,
  `elems[elems.len()-1]` is `unwrapO elems.getLast?`.  (`elems[0..elems.len()-1]` is `dropLast`; the
  subtraction cannot underflow after the `len() == 0` test, and `dropLast` of `[]` is `[]` — the
  `getLast?` next to it carries the panic.)  `Props/C14.lean` proves that `panic` is never returned.
* `text.to_uppercase()` (row names) and `text.to_lowercase()` ("normal"/"disabled") are Unicode
  functions in Rust.  Here they are the ASCII case mappings.  This is equivalent for the comparisons
  the code makes, because no non-ASCII character has a case mapping consisting of characters that
  occur in the compared-to strings; suite `load` (part e) checks this claim on every Unicode scalar
  value, with both the `char` and the `str` versions of the functions.
* String constants are written as character lists: string literals do not reduce in the kernel.
-/
import TmVerif.Model.Json
import TmVerif.Model.Fancy
import TmVerif.Model.Keys

namespace TmVerif

/-- result of a Rust function returning `Result<α, String>` that might also panic -/
inductive Outcome (α : Type) where
  | ok (a : α)
  | error
  | panic
deriving DecidableEq, Repr, Inhabited

namespace Outcome

def bind {α β : Type} : Outcome α → (α → Outcome β) → Outcome β
  | ok a, f => f a
  | error, _ => error
  | panic, _ => panic

/-- `opt.ok_or(..)?` / `map_err(..)?`: `None` is an error -/
def ofOption {α : Type} : Option α → Outcome α
  | some a => ok a
  | none => error

/-- `opt.unwrap()` / an index expression: `None` is a panic -/
def unwrapO {α : Type} : Option α → Outcome α
  | some a => ok a
  | none => panic

/-- `for x in xs { res.push(f(x)?) }` -/
def mapM {α β : Type} (f : α → Outcome β) : List α → Outcome (List β)
  | [] => ok []
  | x :: xs => (f x).bind fun y => (mapM f xs).bind fun ys => ok (y :: ys)

end Outcome

namespace Parse
open Outcome Fancy

/-! string constants -/
def sMappings : List Char := ['m','a','p','p','i','n','g','s']
def sFrom : List Char := ['f','r','o','m']
def sTo : List Char := ['t','o']
def sRepeat : List Char := ['r','e','p','e','a','t']
def sAbsorbing : List Char := ['a','b','s','o','r','b','i','n','g']
def sRow : List Char := ['r','o','w']
def sLetters : List Char := ['l','e','t','t','e','r','s']
def sSpecial : List Char := ['S','p','e','c','i','a','l']
def sKeys : List Char := ['k','e','y','s']
def sDelay : List Char := ['d','e','l','a','y','_','m','s']
def sInterval : List Char := ['i','n','t','e','r','v','a','l','_','m','s']
def sNormal : List Char := ['n','o','r','m','a','l']
def sDisabled : List Char := ['d','i','s','a','b','l','e','d']

/-- ASCII part of `char::to_lowercase` -/
def asciiLower (c : Char) : Char :=
  if 65 ≤ c.toNat ∧ c.toNat ≤ 90 then Char.ofNat (c.toNat + 32) else c

/-- ASCII part of `char::to_uppercase` -/
def asciiUpper (c : Char) : Char :=
  if 97 ≤ c.toNat ∧ c.toNat ≤ 122 then Char.ofNat (c.toNat - 32) else c

def lowerStr (s : List Char) : List Char := s.map asciiLower
def upperStr (s : List Char) : List Char := s.map asciiUpper

/-- `text.starts_with("@")` -/
def startsWithAt : List Char → Bool
  | c :: _ => c.toNat == 64
  | [] => false

/-- `parse_key_code` as a `Result` -/
def parseKeyCodeO (text : List Char) : Outcome Key := ofOption (parseKeyCode text)

/-- `parse_modifier` -/
def parseModifier (text : List Char) : Outcome Modifier :=
  if startsWithAt text then ok (Modifier.alias text)
  else (parseKeyCodeO text).bind fun k => ok (Modifier.key k)

/-- `parse_from_modifier` -/
def parseFromModifier (v : Json) : Outcome Modifier :=
  match v with
  | Json.str text =>
    if startsWithAt text then ok (Modifier.alias text)
    else (parseKeyCodeO text).bind fun k => ok (Modifier.key k)
  | _ => error

/-- `parse_from_modifiers` -/
def parseFromModifiers (vs : List Json) : Outcome (List Modifier) := mapM parseFromModifier vs

/-- `ROW_NAMES.get(&text.to_uppercase())` in `parse_row` -/
def parseRow (text : List Char) : Outcome Row :=
  let u := upperStr text
  if u == ['`'] then ok Row.grave
  else if u == ['1'] then ok Row.one
  else if u == ['Q'] then ok Row.q
  else if u == ['A'] then ok Row.a
  else if u == ['Z'] then ok Row.z
  else error

/-- the private enum `FromKey` -/
inductive FromKey where
  | single (k : Key)
  | row (r : Row)

/-- `parse_from_row` -/
def parseFromRow (elems : List (List Char × Json)) : Outcome FromKey :=
  if hasExactlyKeys elems [sRow] then
    (unwrapO (Json.lookup sRow elems)).bind fun rowObj =>
    match rowObj with
    | Json.str rowText => (parseRow rowText).bind fun r => ok (FromKey.row r)
    | _ => error
  else error

/-- `parse_from_key_obj` -/
def parseFromKeyObj (obj : List (List Char × Json)) : Outcome FromKey :=
  if hasExactlyKeys obj [sRow] then parseFromRow obj else error

/-- `parse_from_key_text` -/
def parseFromKeyText (text : List Char) : Outcome FromKey :=
  (parseKeyCodeO text).bind fun k => ok (FromKey.single k)

/-- `parse_from_key` -/
def parseFromKey (v : Json) : Outcome FromKey :=
  match v with
  | Json.str text => parseFromKeyText text
  | Json.obj obj => parseFromKeyObj obj
  | _ => error

/-- the private enum `FromKeys` -/
inductive FromKeys where
  | single (f : SingleFromKeys)
  | row (f : RowFromKeys)

/-- `parse_from` -/
def parseFrom (v : Json) : Outcome FromKeys :=
  match v with
  | Json.arr elems =>
    if elems.length == 0 then error
    else
      (parseFromModifiers elems.dropLast).bind fun modifiers =>
      (unwrapO elems.getLast?).bind fun last =>
      (parseFromKey last).bind fun key =>
      match key with
      | FromKey.single k => ok (FromKeys.single ⟨modifiers, k⟩)
      | FromKey.row r => ok (FromKeys.row ⟨modifiers, r⟩)
  | _ =>
    (parseFromKey v).bind fun key =>
    match key with
    | FromKey.single k => ok (FromKeys.single ⟨[], k⟩)
    | FromKey.row r => ok (FromKeys.row ⟨[], r⟩)

/-- `parse_to_initial_elem` -/
def parseToInitialElem (v : Json) : Outcome Modifier :=
  match v with
  | Json.str text =>
    if startsWithAt text then ok (Modifier.alias text)
    else (parseKeyCodeO text).bind fun k => ok (Modifier.key k)
  | _ => error

/-- `parse_to_initial` -/
def parseToInitial (vs : List Json) : Outcome (List Modifier) := mapM parseToInitialElem vs

/-- `parse_key_code_j` -/
def parseKeyCodeJ (v : Json) : Outcome Key :=
  match v with
  | Json.str text => parseKeyCodeO text
  | _ => error

/-- `parse_alias_to_initial` -/
def parseAliasToInitial (vs : List Json) : Outcome (List Key) := mapM parseKeyCodeJ vs

/-- the private enum `SingleOrAliasToTerminal` -/
inductive SingleOrAliasToTerminal where
  | single (t : Terminal)
  | alias (name : List Char)

/-- `parse_single_or_alias_to_text` -/
def parseSingleOrAliasToText (text : List Char) : Outcome SingleOrAliasToTerminal :=
  if startsWithAt text then ok (SingleOrAliasToTerminal.alias text)
  else (parseKeyCodeO text).bind fun k => ok (SingleOrAliasToTerminal.single (Terminal.physical k))

/-- `parse_single_or_alias_to_terminal` -/
def parseSingleOrAliasToTerminal (v : Json) : Outcome SingleOrAliasToTerminal :=
  match v with
  | Json.str text => parseSingleOrAliasToText text
  | Json.obj _ => error
  | _ => error

/-- the private enum `SingleOrAliasToKeys` -/
inductive SingleOrAliasToKeys where
  | single (t : SingleToKeys)
  | alias (t : AliasToKeys)

/-- `parse_single_or_alias_to_array` -/
def parseSingleOrAliasToArray (elems : List Json) : Outcome SingleOrAliasToKeys :=
  if elems.length == 0 then ok (SingleOrAliasToKeys.single ⟨[], Terminal.null⟩)
  else
    (unwrapO elems.getLast?).bind fun last =>
    (parseSingleOrAliasToTerminal last).bind fun terminal =>
    match terminal with
    | SingleOrAliasToTerminal.single t =>
      (parseToInitial elems.dropLast).bind fun initial => ok (SingleOrAliasToKeys.single ⟨initial, t⟩)
    | SingleOrAliasToTerminal.alias name =>
      (parseAliasToInitial elems.dropLast).bind fun initial => ok (SingleOrAliasToKeys.alias ⟨initial, name⟩)

/-- `parse_single_or_alias_to` -/
def parseSingleOrAliasTo (v : Json) : Outcome SingleOrAliasToKeys :=
  match v with
  | Json.arr elems => parseSingleOrAliasToArray elems
  | _ =>
    (parseSingleOrAliasToTerminal v).bind fun terminal =>
    match terminal with
    | SingleOrAliasToTerminal.single t => ok (SingleOrAliasToKeys.single ⟨[], t⟩)
    | SingleOrAliasToTerminal.alias name => ok (SingleOrAliasToKeys.alias ⟨[], name⟩)

/-- `parse_single_to_text` -/
def parseSingleToText (text : List Char) : Outcome Terminal :=
  if startsWithAt text then error
  else (parseKeyCodeO text).bind fun k => ok (Terminal.physical k)

/-- `parse_single_to_terminal` -/
def parseSingleToTerminal (v : Json) : Outcome Terminal :=
  match v with
  | Json.str text => parseSingleToText text
  | Json.obj _ => error
  | _ => error

/-- `parse_single_to_array` -/
def parseSingleToArray (elems : List Json) : Outcome SingleToKeys :=
  if elems.length == 0 then ok ⟨[], Terminal.null⟩
  else
    (parseToInitial elems.dropLast).bind fun initial =>
    (unwrapO elems.getLast?).bind fun last =>
    (parseSingleToTerminal last).bind fun terminal => ok ⟨initial, terminal⟩

/-- `parse_single_to` (= `parse_single_repeat_keys`) -/
def parseSingleTo (v : Json) : Outcome SingleToKeys :=
  match v with
  | Json.arr elems => parseSingleToArray elems
  | _ => (parseSingleToTerminal v).bind fun terminal => ok ⟨[], terminal⟩

/-- `parse_row_to_obj` -/
def parseRowToObj (attrs : List (List Char × Json)) : Outcome (List Char) :=
  if hasExactlyKeys attrs [sLetters] then
    (unwrapO (Json.lookup sLetters attrs)).bind fun letters =>
    match letters with
    | Json.str text => ok text
    | _ => error
  else error

/-- `parse_row_to_terminal` -/
def parseRowToTerminal (v : Json) : Outcome (List Char) :=
  match v with
  | Json.obj attrs => parseRowToObj attrs
  | _ => error

/-- `parse_row_to_array` -/
def parseRowToArray (elems : List Json) : Outcome RowToKeys :=
  if elems.length == 0 then error
  else
    (parseToInitial elems.dropLast).bind fun initial =>
    (unwrapO elems.getLast?).bind fun last =>
    (parseRowToTerminal last).bind fun terminal => ok ⟨initial, terminal⟩

/-- `parse_row_to` (= `parse_row_repeat_keys`) -/
def parseRowTo (v : Json) : Outcome RowToKeys :=
  match v with
  | Json.arr elems => parseRowToArray elems
  | _ => (parseRowToTerminal v).bind fun terminal => ok ⟨[], terminal⟩

/-- `parse_repeat_delay_ms` and `parse_repeat_interval_ms` (same code): a number for which
`as_i64()` is `Some`, cast with `as i32` -/
def parseRepeatMs (v : Json) : Outcome Int :=
  match v with
  | Json.num n => (ofOption n.asI64).bind fun i => ok (toI32 i)
  | _ => error

/-- `parse_single_repeat` -/
def parseSingleRepeat (v : Option Json) : Outcome SingleRepeat :=
  match v with
  | some (Json.str text) =>
    if lowerStr text == sNormal then ok SingleRepeat.normal
    else if lowerStr text == sDisabled then ok SingleRepeat.disabled
    else error
  | some (Json.obj params) =>
    if hasExactlyKeys params [sSpecial] then
      (unwrapO (Json.lookup sSpecial params)).bind fun special =>
      match special with
      | Json.obj special =>
        if hasExactlyKeys special [sKeys, sDelay, sInterval] then
          (unwrapO (Json.lookup sKeys special)).bind fun keys =>
          (unwrapO (Json.lookup sDelay special)).bind fun delay =>
          (unwrapO (Json.lookup sInterval special)).bind fun interval =>
          (parseSingleTo keys).bind fun keys =>
          (parseRepeatMs delay).bind fun delay =>
          (parseRepeatMs interval).bind fun interval =>
          ok (SingleRepeat.special keys delay interval)
        else error
      | _ => error
    else error
  | some _ => error
  | none => ok SingleRepeat.normal

/-- `parse_row_repeat` -/
def parseRowRepeat (v : Option Json) : Outcome RowRepeat :=
  match v with
  | some (Json.str text) =>
    if lowerStr text == sNormal then ok RowRepeat.normal
    else if lowerStr text == sDisabled then ok RowRepeat.disabled
    else error
  | some (Json.obj params) =>
    if hasExactlyKeys params [sSpecial] then
      (unwrapO (Json.lookup sSpecial params)).bind fun special =>
      match special with
      | Json.obj special =>
        if hasExactlyKeys special [sKeys, sDelay, sInterval] then
          (unwrapO (Json.lookup sKeys special)).bind fun keys =>
          (unwrapO (Json.lookup sDelay special)).bind fun delay =>
          (unwrapO (Json.lookup sInterval special)).bind fun interval =>
          (parseRowTo keys).bind fun keys =>
          (parseRepeatMs delay).bind fun delay =>
          (parseRepeatMs interval).bind fun interval =>
          ok (RowRepeat.special keys delay interval)
        else error
      | _ => error
    else error
  | some _ => error
  | none => ok RowRepeat.normal

/-- the element loop of `parse_absorbing` -/
def parseAbsorbingElem (v : Json) : Outcome Modifier :=
  match v with
  | Json.str text => parseModifier text
  | _ => error

/-- `parse_absorbing` -/
def parseAbsorbing (v : Option Json) : Outcome (List Modifier) :=
  match v with
  | some (Json.arr elems) => mapM parseAbsorbingElem elems
  | some (Json.str text) => (parseModifier text).bind fun m => ok [m]
  | some _ => error
  | none => ok []

/-- `single_to_alias_from`: the modifiers must all be real keys -/
def modifierKeys : List Modifier → Outcome (List Key)
  | [] => ok []
  | Modifier.key k :: ms => (modifierKeys ms).bind fun ks => ok (k :: ks)
  | Modifier.alias _ :: _ => error

def singleToAliasFrom (f : SingleFromKeys) : Outcome AliasFromKeys :=
  (modifierKeys f.modifiers).bind fun ks => ok ⟨ks ++ [f.key]⟩

/-- the loop `for m in &absorbing { if !from.modifiers.contains(m) { return Err } }` -/
def absorbingOk (absorbing modifiers : List Modifier) : Bool :=
  absorbing.all fun m => modifiers.contains m

/-- `parse_mapping_from_json` -/
def parseMappingFromJson (v : Json) : Outcome Fancy.Mapping :=
  match v with
  | Json.obj mv =>
    if hasAtLeastKeys mv [sFrom, sTo] then
      (unwrapO (Json.lookup sFrom mv)).bind fun fromV =>
      (parseFrom fromV).bind fun frm =>
      match frm with
      | FromKeys.single frm =>
        (unwrapO (Json.lookup sTo mv)).bind fun toV =>
        (parseSingleOrAliasTo toV).bind fun to =>
        match to with
        | SingleOrAliasToKeys.single to =>
          (parseSingleRepeat (Json.lookup sRepeat mv)).bind fun rep =>
          (parseAbsorbing (Json.lookup sAbsorbing mv)).bind fun absorbing =>
          if absorbingOk absorbing frm.modifiers then
            ok (Mapping.single ⟨frm, to, rep, absorbing⟩)
          else error
        | SingleOrAliasToKeys.alias to =>
          if Json.hasKey sRepeat mv then error
          else if Json.hasKey sAbsorbing mv then error
          else (singleToAliasFrom frm).bind fun afrom => ok (Mapping.alias ⟨afrom, to⟩)
      | FromKeys.row frm =>
        (unwrapO (Json.lookup sTo mv)).bind fun toV =>
        (parseRowTo toV).bind fun to =>
        (parseRowRepeat (Json.lookup sRepeat mv)).bind fun rep =>
        let tooMany : Bool :=
          match rep with
          | RowRepeat.special keys _ _ => decide (keys.terminal.length > to.terminal.length)
          | _ => false
        if tooMany then error
        else
          (parseAbsorbing (Json.lookup sAbsorbing mv)).bind fun absorbing =>
          if absorbingOk absorbing frm.modifiers then
            ok (Mapping.row ⟨frm, to, rep, absorbing⟩)
          else error
    else if hasExactlyKeys mv [sFrom, sRepeat] then
      (unwrapO (Json.lookup sFrom mv)).bind fun fromV =>
      (parseFrom fromV).bind fun frm =>
      match frm with
      | FromKeys.single frm =>
        (parseSingleRepeat (Json.lookup sRepeat mv)).bind fun rep =>
        ok (Mapping.repeatOnly ⟨frm, rep⟩)
      | FromKeys.row _ => error
    else error
  | _ => error

/-- `just_mods` over a list -/
def aliasNames : List Modifier → List (List Char)
  | [] => []
  | Modifier.alias n :: ms => n :: aliasNames ms
  | Modifier.key _ :: ms => aliasNames ms

def singleRepeatInitial : SingleRepeat → List Modifier
  | SingleRepeat.special keys _ _ => keys.initial
  | _ => []

def rowRepeatInitial : RowRepeat → List Modifier
  | RowRepeat.special keys _ _ => keys.initial
  | _ => []

/-- `mapping_all_used_aliases` -/
def mappingAllUsedAliases : Fancy.Mapping → List (List Char)
  | Mapping.alias _ => []
  | Mapping.single s =>
    aliasNames s.frm.modifiers ++ aliasNames s.to.initial ++ aliasNames (singleRepeatInitial s.rep)
      ++ aliasNames s.absorbing
  | Mapping.row r =>
    aliasNames r.frm.modifiers ++ aliasNames r.to.initial ++ aliasNames (rowRepeatInitial r.rep)
      ++ aliasNames r.absorbing
  | Mapping.repeatOnly s =>
    aliasNames s.frm.modifiers ++ aliasNames (singleRepeatInitial s.rep)

/-- `defined_alias_names` -/
def definedAliasNames : List Fancy.Mapping → List (List Char)
  | [] => []
  | Mapping.alias a :: ms => a.to.terminal :: definedAliasNames ms
  | _ :: ms => definedAliasNames ms

/-- the last loop of `parse_layout_from_json` -/
def allAliasesDefined (mappings : List Fancy.Mapping) : Bool :=
  let defined := definedAliasNames mappings
  mappings.all fun m => (mappingAllUsedAliases m).all fun a => defined.contains a

/-- `parse_layout_from_json` -/
def parseLayoutFromJson (root : Json) : Outcome Fancy.Layout :=
  match root with
  | Json.obj rootValues =>
    if hasExactlyKeys rootValues [sMappings] then
      (unwrapO (Json.lookup sMappings rootValues)).bind fun mappingsV =>
      match mappingsV with
      | Json.arr mappingVs =>
        (mapM parseMappingFromJson mappingVs).bind fun mappings =>
        if allAliasesDefined mappings then ok mappings else error
      | _ => error
    else error
  | _ => error

end Parse

export Parse (parseLayoutFromJson)

end TmVerif
