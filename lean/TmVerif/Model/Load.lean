/-
M3 — the loader as a whole, and the JSON form in which `add_systemd_service` saves a layout.

`load` = `layout_loading::load_layout_from_file` after `serde_json::from_reader` has produced a
`Value`: `parse_layout_from_json` then `convert`.

`serialize` = `serde_json::to_value(&keys::Layout)` (what `serde_json::to_writer_pretty` prints in
`udev_utils::write_layout_to_global_config`), by the serde derives of `src/keys.rs`:
* `Layout` → object with the single field `mappings`;
* `Mapping` → object with the four fields `from`, `to`, `repeat`, `absorbing` — all four always
  written (the `default` attributes only act on deserialisation); as a `Value` the object is a
  `BTreeMap`, i.e. the keys are in the order absorbing < from < repeat < to;
* `Repeat` → externally tagged: `"Normal"`, `"Disabled"`,
  `{"Special":{"delay_ms":n,"interval_ms":n,"keys":[…]}}`;
* a key → the string of its serde name (`serdeName`); a number that is no key code has none, so
  `serialize` is partial.
That printing the `Value` and reading the text back gives the same `Value` is serde_json's own round
trip; suite `load` (part d) checks it on every accepted layout.
-/
import TmVerif.Model.Convert

namespace TmVerif
open Outcome

/-- `load_layout_from_file` from the `Value` on -/
def load (j : Json) : Outcome Layout := (parseLayoutFromJson j).bind convert

namespace Ser
open Parse

def optMapM {α β : Type} (f : α → Option β) : List α → Option (List β)
  | [] => some []
  | x :: xs =>
    match f x, optMapM f xs with
    | some y, some ys => some (y :: ys)
    | _, _ => none

def keyJson (k : Key) : Option Json := (serdeName k).map Json.str

def keysJson (ks : List Key) : Option Json := (optMapM keyJson ks).map Json.arr

def sNormalCap : List Char := ['N','o','r','m','a','l']
def sDisabledCap : List Char := ['D','i','s','a','b','l','e','d']

def repeatJson : Repeat → Option Json
  | Repeat.normal => some (Json.str sNormalCap)
  | Repeat.disabled => some (Json.str sDisabledCap)
  | Repeat.special keys delay interval =>
    (keysJson keys).map fun ks =>
      Json.obj [(sSpecial, Json.obj [(sDelay, Json.num (JNum.int delay)),
                                      (sInterval, Json.num (JNum.int interval)),
                                      (sKeys, ks)])]

def mappingJson (m : Mapping) : Option Json :=
  match keysJson m.absorbing, keysJson m.frm, repeatJson m.rep, keysJson m.to with
  | some a, some f, some r, some t => some (Json.obj [(sAbsorbing, a), (sFrom, f), (sRepeat, r), (sTo, t)])
  | _, _, _, _ => none

end Ser

/-- `serde_json::to_value(&layout)` -/
def serialize (L : Layout) : Option Json :=
  (Ser.optMapM Ser.mappingJson L).map fun ms => Json.obj [(Parse.sMappings, Json.arr ms)]

end TmVerif
