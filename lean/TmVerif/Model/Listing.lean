/-
Model of keyboard discovery and selection (property C16).  Import-free.

Rust sources modelled (ellbur/totalmapper):
  src/keyboard_listing.rs   parse_mask_hex,
                            extract_keyboards_from_proc_bus_input_devices      (copy 1, lines 61-169)
                            extract_input_devices_from_proc_bus_input_devices  (copy 2, lines 171-264)
                            list_keyboards, list_input_devices
  src/remapping_loop.rs     do_remapping_loop_all_devices (list -> flag_excluded -> keep non-excluded),
                            filter_devices_verbose, flag_excluded, flag_excluded_input_devices

Everything lives in namespace `TmVerif.Listing` (generic names such as `splitLines`, `startsWith`, `Env`
would otherwise clash with other models of this library).

Text is `List Char` (one `Char` per Unicode scalar value, as Rust's `str::chars`).  Every prefix
the Rust code slices off (`line[9..]`, `line[6..]`, `line[7..]`) is pure ASCII, so a byte offset
equals a character offset and the slice can never fall inside a multi-byte character:
  "S: Sysfs="  = 9 bytes,   "N: Name=\"" = 9 bytes (the opening quote IS part of the prefix, so
  `line[9..]` starts right after it),   "B: EV=" = 6 bytes,   "B: KEY=" = 7 bytes.

`diff` of the two copies (`diff <(sed -n '62,136p') <(sed -n '172,246p')` on keyboard_listing.rs)
is empty: the line loop, the prefix chain and the whole classification (num_keys .. has_keyboard_in_name)
are textually identical.  They differ only in what happens after the classification: copy 1 pushes
`(sysfs, name)` if keyboard-like and the sysfs path is known, copy 2 pushes `(sysfs, name, flag)` whenever
the sysfs path is known.  Hence ONE shared `classify`, but TWO separately written line loops
(`kbdStep` / `devStep`); `C16_agree` proves that the loops agree.

Deliberate limits of the model (documented, not silently defaulted):
  * `num_keys` and `token_index * 64` are `i32` in Rust; the model uses `Nat`.  They differ only for
    a single line of more than 2^25 mask words / 2^29 hex digits (release build: wraps silently).
  * `dev_path_for_sysfs_name` and `read_to_string` can fail with an IO error, which aborts the whole
    listing (`?`) before anything is selected.  `Env.resolve` models the runs where they succeed.
-/

namespace TmVerif.Listing

/-! ## Text primitives -/

/-- `str::split(sep)` for a single-character separator: never returns the empty list,
`split "" = [""]`, `split "a\n" = ["a", ""]`. -/
def splitOnChar (sep : Char) : List Char → List (List Char)
  | [] => [[]]
  | c :: cs =>
    if c = sep then [] :: splitOnChar sep cs
    else match splitOnChar sep cs with
      | [] => [[c]]
      | l :: ls => (c :: l) :: ls

/-- `text.split('\n')`; a trailing `'\r'` stays on its line. -/
def splitLines (text : List Char) : List (List Char) := splitOnChar '\n' text

/-- lines joined by `'\n'` (inverse of `splitLines` on a non-empty list of newline-free lines) -/
def joinLines : List (List Char) → List Char
  | [] => []
  | [l] => l
  | l :: ls => l ++ '\n' :: joinLines ls

/-- `s.starts_with(pre)` -/
def startsWith : (pre s : List Char) → Bool
  | [], _ => true
  | _ :: _, [] => false
  | p :: ps, c :: cs => p == c && startsWith ps cs

/-- `s.contains(pat)` -/
def containsSub (pat : List Char) : List Char → Bool
  | [] => startsWith pat []
  | c :: cs => startsWith pat (c :: cs) || containsSub pat cs

/-- `char::is_whitespace` (Unicode `White_Space`); compared exhaustively with the real function
over all scalar values by harness suite `listing`. -/
def isWhitespace (c : Char) : Bool :=
  let n := c.toNat
  (0x9 ≤ n && n ≤ 0xD) || n == 0x20 || n == 0x85 || n == 0xA0 || n == 0x1680 ||
  (0x2000 ≤ n && n ≤ 0x200A) || n == 0x2028 || n == 0x2029 || n == 0x202F || n == 0x205F ||
  n == 0x3000

/-- `str::trim_end` -/
def trimEnd : List Char → List Char
  | [] => []
  | c :: cs =>
    match trimEnd cs with
    | [] => if isWhitespace c then [] else [c]
    | r :: rs => c :: r :: rs

/-- `if name.ends_with('"') { name = name[..name.len()-1] }`: ONE trailing quote is removed. -/
def stripTrailingQuote : List Char → List Char
  | [] => []
  | [c] => if c = '"' then [] else [c]
  | c :: d :: cs => c :: stripTrailingQuote (d :: cs)

/-- What `str::to_lowercase` does to one character *as far as the letters of "keyboard" are
concerned*: ASCII `A`–`Z` and U+212A KELVIN SIGN (→ `k`).  Claim checked exhaustively by the harness:
for every scalar value `c`, either `c.to_lowercase()` is exactly `[toLowerChar c]`, or neither
`c.to_lowercase()` nor `toLowerChar c` contains one of the letters k,e,y,b,o,a,r,d.  Under that claim
`name.to_lowercase().contains("keyboard")` = `containsSub "keyboard" (name.map toLowerChar)`. -/
def toLowerChar (c : Char) : Char :=
  if c.toNat = 0x212A then 'k'
  else if 65 ≤ c.toNat ∧ c.toNat ≤ 90 then Char.ofNat (c.toNat + 32)
  else c

/-! ## `u64::from_str_radix(_, 16)` and `parse_mask_hex` -/

/-- `char::to_digit(16)` -/
def hexDigit? (c : Char) : Option Nat :=
  let n := c.toNat
  if 48 ≤ n ∧ n ≤ 57 then some (n - 48)
  else if 97 ≤ n ∧ n ≤ 102 then some (n - 87)
  else if 65 ≤ n ∧ n ≤ 70 then some (n - 55)
  else none

/-- digits of `from_str_radix`, most significant first, with `checked_mul`/`checked_add` on u64 -/
def parseHexDigits : List Char → Nat → Option Nat
  | [], acc => some acc
  | c :: cs, acc =>
    match hexDigit? c with
    | none => none
    | some d => if acc * 16 + d < 2 ^ 64 then parseHexDigits cs (acc * 16 + d) else none

/-- `u64::from_str_radix(s, 16)`: `Err` on the empty string, on a lone `+` (a lone `-` is an invalid
digit anyway), one optional leading `+` is accepted, upper and lower case digits, overflow past
`u64::MAX` is an error. -/
def parseHexU64 : List Char → Option Nat
  | [] => none
  | ['+'] => none
  | '+' :: c :: cs => parseHexDigits (c :: cs) 0
  | c :: cs => parseHexDigits (c :: cs) 0

/-- `for i in 0u8 .. 63u8` — bit 63 of every word is never looked at. -/
def bitsOfWord (num idx : Nat) : List Nat :=
  ((List.range 63).filter (fun i => num.testBit i)).map (fun i => i + idx * 64)

/-- the loop of `parse_mask_hex` over the tokens from the RIGHT; any failing token fails everything -/
def parseMaskTokens : List (List Char) → Nat → Option (List Nat)
  | [], _ => some []
  | t :: ts, idx =>
    match parseHexU64 t with
    | none => none
    | some num =>
      match parseMaskTokens ts (idx + 1) with
      | none => none
      | some r => some (bitsOfWord num idx ++ r)

/-- `parse_mask_hex`: `hex.rsplit(' ')` yields the `split(' ')` tokens in reverse order (so empty tokens
from leading / trailing / double spaces are there and make the parse fail).  Result: the set as an
increasing list. -/
def parseMaskHex (hex : List Char) : Option (List Nat) :=
  parseMaskTokens (splitOnChar ' ' hex).reverse 0

/-! ## Classification (shared by both copies; identical text in the Rust source) -/

/-- the `match c { '0' => 0, … 'f' => 4, _ => 0 }` table: LOWER-case digits only -/
def hexPop (c : Char) : Nat :=
  if c = '1' ∨ c = '2' ∨ c = '4' ∨ c = '8' then 1
  else if c = '3' ∨ c = '5' ∨ c = '6' ∨ c = '9' ∨ c = 'a' ∨ c = 'c' then 2
  else if c = '7' ∨ c = 'b' ∨ c = 'd' ∨ c = 'e' then 3
  else if c = 'f' then 4
  else 0

def numKeys (hex : List Char) : Nat := hex.foldl (fun n c => n + hexPop c) 0

/-- A B C SPACE LEFTSHIFT RIGHTSHIFT BACKSPACE ENTER ESC PAUSE -/
def normalKeys : List Nat := [30, 48, 46, 57, 42, 54, 14, 28, 1, 119]
def keyScrollDown : Nat := 178
def evLedBit : Nat := 0x11

def strMouse : List Char := ['M', 'o', 'u', 's', 'e']
def strCrosEc : List Char := ['c', 'r', 'o', 's', '_', 'e', 'c']
def strKeyboard : List Char := ['k', 'e', 'y', 'b', 'o', 'a', 'r', 'd']

/-- `name.to_lowercase().contains("keyboard")` -/
def hasKeyboardInName (name : List Char) : Bool := containsSub strKeyboard (name.map toLowerChar)

/-- The heuristic of lines 91-143 / 201-248.  `name` is `working_name` or `""`, `evMask` is
`working_ev_mask`, `keyHex` is `line[7..]` of the `B: KEY=` line. -/
def classify (name : List Char) (evMask : Option (List Char)) (keyHex : List Char) : Bool :=
  let nKeys := numKeys keyHex
  let keySet := (parseMaskHex keyHex).getD []
  let evSet := match evMask with
    | none => []
    | some m => (parseMaskHex m).getD []
  let nNormal := (normalKeys.filter (fun k => keySet.contains k)).length
  let hasScrollDown := keySet.contains keyScrollDown
  let lacksLeds := !evSet.contains evLedBit
  let hasMouseInName := containsSub strMouse name
  let isCrosEc := name == strCrosEc
  let mousey := decide (hasScrollDown.toNat + lacksLeds.toNat + hasMouseInName.toNat ≥ 2)
  decide (nKeys ≥ 20) && decide (nNormal ≥ 3) && (hasKeyboardInName name || !mousey) && !isCrosEc

/-! ## The two line loops -/

def pfxI : List Char := ['I', ':']
def pfxSysfs : List Char := ['S', ':', ' ', 'S', 'y', 's', 'f', 's', '=']
def pfxName : List Char := ['N', ':', ' ', 'N', 'a', 'm', 'e', '=', '"']
def pfxEv : List Char := ['B', ':', ' ', 'E', 'V', '=']
def pfxKey : List Char := ['B', ':', ' ', 'K', 'E', 'Y', '=']

/-- `working_sysfs_path`, `working_name`, `working_ev_mask` -/
structure Work where
  sysfs : Option (List Char)
  name : Option (List Char)
  ev : Option (List Char)
  deriving DecidableEq, Repr

def Work.init : Work := ⟨none, none, none⟩

/-- `line[9..]`, `trim_end()`, one trailing `"` stripped -/
def parseName (rest : List Char) : List Char := stripTrailingQuote (trimEnd rest)

abbrev KbdRec := List Char × List Char
abbrev DevRec := List Char × List Char × Bool

/-- one iteration of the `for line in lines` loop of copy 1 (`extract_keyboards_…`) -/
def kbdStep (acc : Work × List KbdRec) (line : List Char) : Work × List KbdRec :=
  let w := acc.1
  let res := acc.2
  if startsWith pfxI line then
    (⟨none, none, none⟩, res)
  else if startsWith pfxSysfs line then
    (⟨some (line.drop 9), w.name, w.ev⟩, res)
  else if startsWith pfxName line then
    (⟨w.sysfs, some (parseName (line.drop 9)), w.ev⟩, res)
  else if startsWith pfxEv line then
    (⟨w.sysfs, w.name, some (line.drop 6)⟩, res)
  else if startsWith pfxKey line then
    let name := match w.name with
      | none => []
      | some n => n
    if classify name w.ev (line.drop 7) then
      match w.sysfs with
      | none => (w, res)
      | some p => (w, res ++ [(p, name)])
    else
      (w, res)
  else
    (w, res)

/-- one iteration of the loop of copy 2 (`extract_input_devices_…`) -/
def devStep (acc : Work × List DevRec) (line : List Char) : Work × List DevRec :=
  let w := acc.1
  let res := acc.2
  if startsWith pfxI line then
    (⟨none, none, none⟩, res)
  else if startsWith pfxSysfs line then
    (⟨some (line.drop 9), w.name, w.ev⟩, res)
  else if startsWith pfxName line then
    (⟨w.sysfs, some (parseName (line.drop 9)), w.ev⟩, res)
  else if startsWith pfxEv line then
    (⟨w.sysfs, w.name, some (line.drop 6)⟩, res)
  else if startsWith pfxKey line then
    let name := match w.name with
      | none => []
      | some n => n
    let isKeyboard := classify name w.ev (line.drop 7)
    match w.sysfs with
    | none => (w, res)
    | some p => (w, res ++ [(p, name, isKeyboard)])
  else
    (w, res)

/-- copy 1 on a list of lines, from a given working state -/
def kbdRun (w : Work) (lines : List (List Char)) : List KbdRec := (lines.foldl kbdStep (w, [])).2
/-- copy 2 on a list of lines, from a given working state -/
def devRun (w : Work) (lines : List (List Char)) : List DevRec := (lines.foldl devStep (w, [])).2

/-- `extract_keyboards_from_proc_bus_input_devices`: `(sysfs_path, name)` of the keyboard-like entries -/
def extractKeyboards (text : List Char) : List KbdRec := kbdRun Work.init (splitLines text)

/-- `extract_input_devices_from_proc_bus_input_devices`: `(sysfs_path, name, is_keyboard)` -/
def extractInputDevices (text : List Char) : List DevRec := devRun Work.init (splitLines text)

/-! ## Glue with the operating system -/

/-- The operating system and the glob matcher as parameters. -/
structure Env where
  /-- `dev_path_for_sysfs_name`: sysfs path → /dev node; `none` = the device has no event node -/
  resolve : List Char → Option (List Char)
  /-- `std::fs::canonicalize` followed by `to_str`; `none` = error / not UTF-8 -/
  canon : List Char → Option (List Char)
  /-- `WildMatch::new(pattern).matches(name)` -/
  glob : List Char → List Char → Bool

/-- `"/devices/virtual/input/"` -/
def virtualPrefix : List Char :=
  ['/', 'd', 'e', 'v', 'i', 'c', 'e', 's', '/', 'v', 'i', 'r', 't', 'u', 'a', 'l', '/', 'i',
   'n', 'p', 'u', 't', '/']

def isVirtual (sysfs : List Char) : Bool := startsWith virtualPrefix sysfs

/-- `list_keyboards`: `(dev_path, name)`; the `for` loop pushes exactly when the path is not virtual
and resolves. -/
def listKeyboards (env : Env) (text : List Char) : List (List Char × List Char) :=
  (extractKeyboards text).filterMap fun dev =>
    if !isVirtual dev.1 then
      match env.resolve dev.1 with
      | none => none
      | some devPath => some (devPath, dev.2)
    else none

/-- `list_input_devices`: `(dev_path, name, is_keyboard)` -/
def listInputDevices (env : Env) (text : List Char) : List (List Char × List Char × Bool) :=
  (extractInputDevices text).filterMap fun dev =>
    if !isVirtual dev.1 then
      match env.resolve dev.1 with
      | none => none
      | some devPath => some (devPath, dev.2.1, dev.2.2)
    else none

/-- `wilds.iter().any(|w| w.matches(&d.name))` (`flag_excluded` and `flag_excluded_input_devices`) -/
def isExcluded (env : Env) (excludes : List (List Char)) (name : List Char) : Bool :=
  excludes.any fun pat => env.glob pat name

/-- `do_remapping_loop_all_devices` (`--all-keyboards`): the device nodes handed to
`do_remapping_loop_these_devices`. -/
def selectAll (env : Env) (text : List Char) (excludes : List (List Char)) : List (List Char) :=
  (((listKeyboards env text).map fun d => (d, isExcluded env excludes d.2)).filter
    fun e => !e.2).map fun e => e.1.1

/-- `HashMap::get` after a sequence of `insert`s in list order: the LAST entry with that key wins -/
def lookupLast {β : Type} (key : List Char) : List (List Char × β) → Option β
  | [] => none
  | (k, v) :: rest =>
    match lookupLast key rest with
    | some v' => some v'
    | none => if k = key then some v else none

/-- `str::replace("//", "/")`: non-overlapping matches, left to right (`"///"` ↦ `"//"`). -/
def replaceDoubleSlash : List Char → List Char
  | [] => []
  | [c] => [c]
  | c :: d :: cs =>
    if c = '/' ∧ d = '/' then '/' :: replaceDoubleSlash cs
    else c :: replaceDoubleSlash (d :: cs)

/-- the `canonical_set` of `filter_devices_verbose` as an association list in insertion order:
canonical path ↦ (device, excluded); devices whose path does not canonicalise are skipped -/
def canonicalSet (env : Env) (text : List Char) (excludes : List (List Char)) :
    List (List Char × ((List Char × List Char × Bool) × Bool)) :=
  ((listInputDevices env text).map fun d => (d, isExcluded env excludes d.2.1)).filterMap fun p =>
    match env.canon p.1.1 with
    | some s => some (s, p)
    | none => none

/-- `filter_devices_verbose` (`--dev-file … [--only-if-keyboard]`): the arguments that survive, in
argument order. -/
def selectNamed (env : Env) (text : List Char) (excludes : List (List Char)) (skipNonKeyboard : Bool)
    (args : List (List Char)) : List (List Char) :=
  let set := canonicalSet env text excludes
  args.filter fun s =>
    match env.canon s with
    | none => false
    | some l =>
      let l := replaceDoubleSlash l
      match lookupLast l set with
      | some dev =>
        if skipNonKeyboard && !dev.1.2.2 then false
        else if dev.2 then false
        else true
      | none => false

end TmVerif.Listing
