/-
M-bytes — model of `src/dev_input_rw.rs` (`DevInputWriter::send`, `DevInputReader::next`) and of the
part of `src/struct_ser.rs` they use.

Import-free apart from the mapper model (for `Event`) and the generated key table (the native
driver links this file).  Bytes are `Nat`s below 256 in a `List`; the target is x86-64, so Rust's
`to_ne_bytes`/`from_ne_bytes` are little-endian, and `struct input_event` is

    offset  0  i64  tv_sec      (8 bytes)
    offset  8  i64  tv_usec     (8 bytes)
    offset 16  u16  type
    offset 18  u16  code
    offset 20  i32  value
    size   24

(the harness suite `bytes` asserts size, offsets and endianness against `libc::input_event`).
-/
import TmVerif.Model.Mapper
import TmVerif.Generated.Tables

namespace TmVerif

/-! ## key codes the tool knows -/

/-- `FromPrimitive::from_u16(c).is_some()` for the `KeyCode` enum: `c` is the discriminant of some row
of the generated key table (checked against the real function for every `u16` by the suite). -/
def knownCode (c : Nat) : Bool := Tables.keyTable.any fun row => row.1 == c

/-- the key of an event (`match ev { Pressed(k) => k, Released(k) => k }` in `send`) -/
def Event.code : Event → Nat
  | Event.pressed k => k
  | Event.released k => k

/-- the `value` field `send` writes: `Pressed(_) => 1`, `Released(_) => 0` -/
def Event.value : Event → Nat
  | Event.pressed _ => 1
  | Event.released _ => 0

/-! ## `struct_ser.rs`: little-endian serialisation -/

/-- the `w` low bytes of `n`, least significant first (`to_ne_bytes` of a `w`-byte integer on a
little-endian machine; bits above `8 * w` are dropped, as by an `as` cast to that width) -/
def leBytes : Nat → Nat → List Nat
  | 0, _ => []
  | w + 1, n => n % 256 :: leBytes w (n / 256)

/-- `add_u16` -/
def le16 (n : Nat) : List Nat := leBytes 2 n
/-- `add_u32` / `add_i32` (of the two's complement image) -/
def le32 (n : Nat) : List Nat := leBytes 4 n
/-- `add_u64` / `add_i64` (of the two's complement image) -/
def le64 (n : Nat) : List Nat := leBytes 8 n

/-! ## `DevInputWriter::send` -/

/-- one `struct input_event` with an arbitrary time stamp (what the kernel produces on the read
side; `send` itself always writes time 0) -/
def encodeRecordAt (sec usec type code value : Nat) : List Nat :=
  le64 sec ++ le64 usec ++ le16 type ++ le16 code ++ le32 value

/-- the closure `send_type_code_value`: `add_i64(0); add_i64(0); add_u16(type_); add_u16(code); add_i32(value)` -/
def encodeRecord (type code value : Nat) : List Nat := encodeRecordAt 0 0 type code value

/-- the body of the `for ev in evs` loop: `send_type_code_value(1, (*k) as u16, value)`.
`KeyCode` is `#[repr(i32)]`; `as u16` keeps the low 16 bits. -/
def encodeEvent (e : Event) : List Nat := encodeRecord 1 (e.code % 65536) e.value

/-- `send_type_code_value(0, 0, 0)`: EV_SYN / SYN_REPORT / 0 -/
def synReport : List Nat := encodeRecord 0 0 0

/-- the bytes `send(evs)` hands to `write` in one call -/
def encodeBatch (evs : List Event) : List Nat := evs.flatMap encodeEvent ++ synReport

/-! ## `DevInputReader::next` -/

/-- `buf[i]`; `buf` is `vec![0; 24]`, so bytes a short read did not fill are 0 -/
def byteAt (rec : List Nat) (i : Nat) : Nat := rec.getD i 0

/-- `u16::from_ne_bytes([buf[16], buf[17]])` -/
def recType (rec : List Nat) : Nat := byteAt rec 16 + 256 * byteAt rec 17
/-- `u16::from_ne_bytes([buf[18], buf[19]])` -/
def recCode (rec : List Nat) : Nat := byteAt rec 18 + 256 * byteAt rec 19
/-- the unsigned image of bytes 20..24 -/
def recValueU (rec : List Nat) : Nat :=
  byteAt rec 20 + 256 * byteAt rec 21 + 65536 * byteAt rec 22 + 16777216 * byteAt rec 23
/-- `i32::from_ne_bytes([buf[20], buf[21], buf[22], buf[23]])` (two's complement) -/
def recValue (rec : List Nat) : Int :=
  if recValueU rec < 2147483648 then (recValueU rec : Int) else (recValueU rec : Int) - 4294967296

/-- One iteration of the `loop` of `DevInputReader::next` on the 24 bytes just read:
`some ev` if the iteration returns `Ok(ev)`, `none` if it falls through and loops. -/
def decodeRecord (rec : List Nat) : Option Event :=
  let type := recType rec
  let code := recCode rec
  let value := recValue rec
  if type = 1 ∧ (value = 0 ∨ value = 1) then
    if knownCode code then
      if value = 1 then some (Event.pressed code)
      else if value = 0 then some (Event.released code)
      else none
    else none
  else none

/-- `n` consecutive 24-byte records of `bytes`, decoded; the ones `next` loops over are dropped -/
def decodeRecs : Nat → List Nat → List Event
  | 0, _ => []
  | n + 1, bytes => (decodeRecord (bytes.take 24)).toList ++ decodeRecs n (bytes.drop 24)

/-- Calling `next()` until the stream of whole records is drained (`EAGAIN`): every whole 24-byte
record in order, a trailing short rest is ignored. -/
def decodeStream (bytes : List Nat) : List Event := decodeRecs (bytes.length / 24) bytes

/-! ## executable statement of C18 (evaluated by the driver on the implementation's bytes) -/

/-- what C18 says record `i` looks like: 16 zero bytes (time), `EV_KEY` = 1 as u16, the key's code
as u16, value 1 (press) / 0 (release) as i32 — all little-endian -/
def recordOf : Event → List Nat
  | Event.pressed k =>
    List.replicate 16 0 ++ [1, 0] ++ [k % 65536 % 256, k % 65536 / 256] ++ [1, 0, 0, 0]
  | Event.released k =>
    List.replicate 16 0 ++ [1, 0] ++ [k % 65536 % 256, k % 65536 / 256] ++ [0, 0, 0, 0]

/-- the shape clause of C18 as a check on given bytes (does not mention `encodeBatch`) -/
def shapeOk : List Event → List Nat → Bool
  | [], bytes => bytes == List.replicate 24 0
  | e :: es, bytes => bytes.take 24 == recordOf e && shapeOk es (bytes.drop 24)

/-- C18 on observed bytes: they are what the model writes, they have the stated shape, every byte
is a byte, and reading them back (behind a prefix of foreign records) yields the events. -/
def monC18 (evs : List Event) (bytes junk : List Nat) : Bool :=
  bytes == encodeBatch evs && shapeOk evs bytes && bytes.all (· < 256) &&
  bytes.length == 24 * (evs.length + 1) && decodeStream (junk ++ bytes) == evs

end TmVerif
