/-
M3 — key names.  `parse_key_code` of `src/layout_parsing_formatting.rs`, the serde names of
`src/key_codes.rs`, and `is_modifier` of `src/fancy_layout_interpreting.rs`, all over the generated
table `Tables.keyTable` (regenerated from the real enum on every run).

A key is its discriminant (`Key = Nat`).  Names are compared as lists of character codes, because
that is the form the table has (string literals do not reduce in the kernel).
-/
import TmVerif.Model.Mapper
import TmVerif.Generated.Tables

namespace TmVerif
open TmVerif.Tables

def codesOf (s : List Char) : List Nat := s.map Char.toNat
def charsOf (l : List Nat) : List Char := l.map Char.ofNat

/-- `KeyCode::from_str` (derived by `enum_utils::FromStr`, case sensitive, variant names only):
the discriminant of the variant with that name. -/
def lookupVariantIn (name : List Nat) : List (Nat × List Nat × List Nat) → Option Key
  | [] => none
  | (d, v, _) :: rest => if v == name then some d else lookupVariantIn name rest

def lookupVariant (name : List Nat) : Option Key := lookupVariantIn name keyTable

/-- `parse_key_code` on character codes: refuse `@…`; the ten digit names are the keys `K0`…`K9`;
everything else must be a variant name. -/
def parseKeyCodeN (name : List Nat) : Option Key :=
  match name with
  | 64 :: _ => none                                   -- text.starts_with("@")
  | [48] => lookupVariant [75, 48]                    -- "0" => KeyCode::K0
  | [49] => lookupVariant [75, 49]
  | [50] => lookupVariant [75, 50]
  | [51] => lookupVariant [75, 51]
  | [52] => lookupVariant [75, 52]
  | [53] => lookupVariant [75, 53]
  | [54] => lookupVariant [75, 54]
  | [55] => lookupVariant [75, 55]
  | [56] => lookupVariant [75, 56]
  | [57] => lookupVariant [75, 57]                    -- "9" => KeyCode::K9
  | _ => lookupVariant name

/-- `parse_key_code` -/
def parseKeyCode (s : List Char) : Option Key := parseKeyCodeN (codesOf s)

def serdeNameIn (k : Key) : List (Nat × List Nat × List Nat) → Option (List Nat)
  | [] => none
  | (d, _, s) :: rest => if d == k then some s else serdeNameIn k rest

/-- the name `serde_json::to_value(&key)` writes, as character codes; `none` for a number that is
no key code -/
def serdeNameN (k : Key) : Option (List Nat) := serdeNameIn k keyTable

def serdeName (k : Key) : Option (List Char) := (serdeNameN k).map charsOf

def variantNameIn (k : Key) : List (Nat × List Nat × List Nat) → Option (List Nat)
  | [] => none
  | (d, v, _) :: rest => if d == k then some v else variantNameIn k rest

/-- the variant name (`Debug` / `Display`) -/
def variantName (k : Key) : Option (List Char) := (variantNameIn k keyTable).map charsOf

/-- `k` is one of the 484 key codes -/
def isKnownKey (k : Key) : Bool := (serdeNameN k).isSome

def LEFTSHIFT : Key := 42
def RIGHTSHIFT : Key := 54

/-- `fancy_layout_interpreting::is_modifier`: LEFTSHIFT RIGHTSHIFT LEFTALT RIGHTALT LEFTCTRL
RIGHTCTRL LEFTMETA RIGHTMETA (the numbers are checked against the table by `Props/C13.lean`) -/
def isModifierKey (k : Key) : Bool := [42, 54, 56, 100, 29, 97, 125, 126].contains k

end TmVerif
