/-
M3 — the "fancy" layout types of `src/fancy_keys.rs` (what `parse_layout_from_json` produces and
`fancy_layout_interpreting::convert` consumes).  Same types, same field names, same order.
Alias names keep their leading `@` (the Rust code stores the text as written).
`delay_ms` / `interval_ms` are `i32` in Rust and `Int` here; the parser only produces values in the
`i32` range (`toI32`).
-/
import TmVerif.Model.Mapper

namespace TmVerif.Fancy
open TmVerif

/-- `fancy_keys.rs: Row` -/
inductive Row where
  | grave | one | q | a | z
deriving DecidableEq, Repr, Inhabited

/-- `fancy_keys.rs: Modifier` -/
inductive Modifier where
  | key (k : Key)
  | alias (name : List Char)
deriving DecidableEq, Repr, Inhabited

/-- `fancy_keys.rs: SingleTerminalToKey` -/
inductive Terminal where
  | physical (k : Key)
  | null
deriving DecidableEq, Repr, Inhabited

structure SingleToKeys where
  initial : List Modifier
  terminal : Terminal
deriving DecidableEq, Repr, Inhabited

structure AliasToKeys where
  initial : List Key
  terminal : List Char
deriving DecidableEq, Repr, Inhabited

structure RowToKeys where
  initial : List Modifier
  terminal : List Char
deriving DecidableEq, Repr, Inhabited

inductive SingleRepeat where
  | normal
  | disabled
  | special (keys : SingleToKeys) (delay : Int) (interval : Int)
deriving DecidableEq, Repr, Inhabited

inductive RowRepeat where
  | normal
  | disabled
  | special (keys : RowToKeys) (delay : Int) (interval : Int)
deriving DecidableEq, Repr, Inhabited

structure SingleFromKeys where
  modifiers : List Modifier
  key : Key
deriving DecidableEq, Repr, Inhabited

structure AliasFromKeys where
  keys : List Key
deriving DecidableEq, Repr, Inhabited

structure RowFromKeys where
  modifiers : List Modifier
  row : Row
deriving DecidableEq, Repr, Inhabited

structure SingleMapping where
  frm : SingleFromKeys
  to : SingleToKeys
  rep : SingleRepeat
  absorbing : List Modifier
deriving DecidableEq, Repr, Inhabited

structure AliasMapping where
  frm : AliasFromKeys
  to : AliasToKeys
deriving DecidableEq, Repr, Inhabited

structure RowMapping where
  frm : RowFromKeys
  to : RowToKeys
  rep : RowRepeat
  absorbing : List Modifier
deriving DecidableEq, Repr, Inhabited

structure RepeatOnlySingleMapping where
  frm : SingleFromKeys
  rep : SingleRepeat
deriving DecidableEq, Repr, Inhabited

/-- `fancy_keys.rs: Mapping` -/
inductive Mapping where
  | single (m : SingleMapping)
  | alias (m : AliasMapping)
  | row (m : RowMapping)
  | repeatOnly (m : RepeatOnlySingleMapping)
deriving DecidableEq, Repr, Inhabited

/-- `fancy_keys.rs: Layout` (the struct has the single field `mappings`) -/
abbrev Layout := List Mapping

end TmVerif.Fancy
