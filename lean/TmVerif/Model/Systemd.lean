/-
SPECIFICATION (trusted): how systemd turns the value of an `ExecStart=` line into an argument
vector.  Sources: systemd.service(5) "COMMAND LINES", systemd.syntax(7) "QUOTING", systemd.unit(5)
"SPECIFIERS"; the order of the passes is the one of systemd's `config_parse_exec`
(`extract_first_word(EXTRACT_UNQUOTE|EXTRACT_CUNESCAPE)`, then `unit_full_printf` per word) and of
`replace_env_argv` at execution time.  Not modelled: limits on the length of a line.

The specification is deliberately partial: it answers `none` for everything outside the fragment
it describes (several commands, executable prefixes, specifiers other than `%%` and `%I`, variable
references, `\x80`…`\xff` and NUL escapes whose result is not a character, malformed input).
`some args` therefore means "systemd, by its documented rules, starts the program with exactly
`args`, whatever the environment".

Import-free.  Text is `List Char`; a character stands for its UTF-8 encoding (all syntax
characters are ASCII, and escapes that would yield a byte which is not a character are refused).
-/

namespace TmVerif

/-! ## Pass 1: word splitting, quote removal, C-style unescaping (one left-to-right scan) -/

/-- systemd's `WHITESPACE` -/
def isSep (c : Char) : Bool :=
  c = ' ' || c = '\t' || c = '\n' || c = '\r'

/-- value of a hexadecimal digit -/
def hexVal (c : Char) : Option Nat :=
  let n := c.toNat
  if 48 ≤ n ∧ n ≤ 57 then some (n - 48)          -- 0..9
  else if 97 ≤ n ∧ n ≤ 102 then some (n - 87)    -- a..f
  else if 65 ≤ n ∧ n ≤ 70 then some (n - 55)     -- A..F
  else none

/-- value of a digit in base 16 or 8 -/
def digitVal (base : Nat) (c : Char) : Option Nat :=
  match hexVal c with
  | some d => if d < base then some d else none
  | none => none

/-- one-letter escapes: `\a \b \f \n \r \t \v \\ \" \' \s` -/
def simpleEscape (c : Char) : Option Char :=
  if c = 'a' then some (Char.ofNat 7)
  else if c = 'b' then some (Char.ofNat 8)
  else if c = 'f' then some (Char.ofNat 12)
  else if c = 'n' then some '\n'
  else if c = 'r' then some '\r'
  else if c = 't' then some '\t'
  else if c = 'v' then some (Char.ofNat 11)
  else if c = '\\' then some '\\'
  else if c = '"' then some '"'
  else if c = '\'' then some '\''
  else if c = 's' then some ' '
  else none

/-- result of a numeric escape.  `byte = true` (`\xHH`, `\NNN`): a byte, accepted only if it is an
ASCII character other than NUL.  `byte = false` (`\uHHHH`, `\UHHHHHHHH`): a code point, accepted
only if it is a Unicode scalar value other than NUL. -/
def numEscape (byte : Bool) (n : Nat) : Option Char :=
  if n = 0 then none
  else if byte then (if n < 128 then some (Char.ofNat n) else none)
  else if n < 0xd800 ∨ (0xdfff < n ∧ n < 0x110000) then some (Char.ofNat n)
  else none

inductive Quote
  | off | single | double

/-- progress inside an escape sequence -/
inductive Esc
  /-- the backslash has been read -/
  | start
  /-- `todo` more digits of base `base` are required; `acc` is the value so far -/
  | num (base todo acc : Nat) (byte : Bool)

/-- scanner state; `done` are the finished words, `cur` is the decoded text of the current word -/
inductive Scan
  /-- between two words -/
  | between (done : List (List Char))
  /-- the raw text of the current word is exactly `;` so far -/
  | semi (done : List (List Char))
  /-- inside a word -/
  | word (done : List (List Char)) (cur : List Char) (q : Quote) (esc : Option Esc)

/-- one character inside a word -/
def wordStep (done : List (List Char)) (cur : List Char) (q : Quote) :
    Option Esc → Char → Option Scan
  | some .start, c =>
    if c = 'x' then some (.word done cur q (some (.num 16 2 0 true)))
    else if c = 'u' then some (.word done cur q (some (.num 16 4 0 false)))
    else if c = 'U' then some (.word done cur q (some (.num 16 8 0 false)))
    else match digitVal 8 c with
      | some d => some (.word done cur q (some (.num 8 2 d true)))        -- `\NNN`
      | none =>
        match simpleEscape c with
        | some ch => some (.word done (cur ++ [ch]) q none)
        | none => none                                                     -- unknown escape
  | some (.num base todo acc byte), c =>
    match digitVal base c with
    | none => none                                                         -- too few digits
    | some d =>
      if todo ≤ 1 then
        match numEscape byte (acc * base + d) with
        | some ch => some (.word done (cur ++ [ch]) q none)
        | none => none
      else some (.word done cur q (some (.num base (todo - 1) (acc * base + d) byte)))
  | none, c =>
    if c = '\\' then some (.word done cur q (some .start))                 -- in and outside quotes
    else match q with
      | .off =>
        if c = '\'' then some (.word done cur .single none)
        else if c = '"' then some (.word done cur .double none)
        else if isSep c then some (.between (done ++ [cur]))
        else some (.word done (cur ++ [c]) .off none)
      | .single =>
        if c = '\'' then some (.word done cur .off none)
        else some (.word done (cur ++ [c]) .single none)
      | .double =>
        if c = '"' then some (.word done cur .off none)
        else some (.word done (cur ++ [c]) .double none)

def scanStep : Scan → Char → Option Scan
  | .between done, c =>
    if isSep c then some (.between done)
    else if c = ';' then some (.semi done)
    else wordStep done [] .off none c
  | .semi done, c =>
    if isSep c then none                       -- a lone `;` separates two commands: not modelled
    else wordStep done [';'] .off none c
  | .word done cur q esc, c => wordStep done cur q esc c

def scan : Scan → List Char → Option Scan
  | s, [] => some s
  | s, c :: cs =>
    match scanStep s c with
    | some s' => scan s' cs
    | none => none

/-- end of the line -/
def scanEnd : Scan → Option (List (List Char))
  | .between done => some done
  | .semi _ => none                            -- a lone `;` at the end
  | .word done cur .off none => some (done ++ [cur])
  | .word _ _ _ _ => none                      -- unterminated quote or escape

def splitWords (line : List Char) : Option (List (List Char)) :=
  match scan (.between []) line with
  | some s => scanEnd s
  | none => none

/-! ## Pass 2: specifier expansion, per word, on the result of pass 1 -/

/-- `%%` → `%`, `%I` → the (unescaped) instance name `inst`; every other specifier, including
`%i` (the instance name in its escaped form, a different string), is refused. -/
def expandSpecifiers (inst : List Char) : List Char → Option (List Char)
  | [] => some []
  | c :: r =>
    if c = '%' then
      match r with
      | [] => none
      | d :: r' =>
        if d = '%' then (expandSpecifiers inst r').map ('%' :: ·)
        else if d = 'I' then (expandSpecifiers inst r').map (inst ++ ·)
        else none
    else (expandSpecifiers inst r).map (c :: ·)

/-! ## Pass 3: environment variable expansion, per word, on the result of pass 2 -/

/-- `$$` → `$`.  Every other `$` is refused: `${X}` and `$X` are variable references, a word
that begins with a single `$` is replaced as a whole (by nothing if the variable is unset), and
the remaining cases, in which systemd keeps the `$` literally, are not needed here. -/
def expandEnv : List Char → Option (List Char)
  | [] => some []
  | c :: r =>
    if c = '$' then
      match r with
      | [] => none
      | d :: r' => if d = '$' then (expandEnv r').map ('$' :: ·) else none
    else (expandEnv r).map (c :: ·)

/-! ## The three passes together -/

def mapOpt {α β : Type} (f : α → Option β) : List α → Option (List β)
  | [] => some []
  | a :: as =>
    match f a, mapOpt f as with
    | some b, some bs => some (b :: bs)
    | _, _ => none

/-- The argument vector systemd executes for `ExecStart=<line>` in an instance `inst` of a template
unit.  The executable (first word) must be an absolute path: the special executable prefixes
`@ - : + !` are not modelled. -/
def parseExecStart (line : List Char) (inst : List Char) : Option (List (List Char)) :=
  match splitWords line with
  | some (('/' :: exe) :: args) =>
    mapOpt (fun w => (expandSpecifiers inst w).bind expandEnv) (('/' :: exe) :: args)
  | _ => none

/-! ## Locating the command line in the unit file -/

/-- split at every newline (the part after the last newline is the last line) -/
def splitLines : List Char → List (List Char)
  | [] => [[]]
  | c :: r =>
    if c = '\n' then [] :: splitLines r
    else match splitLines r with
      | l :: ls => (c :: l) :: ls
      | [] => [[c]]

def stripPrefix : (pre s : List Char) → Option (List Char)
  | [], s => some s
  | _ :: _, [] => none
  | a :: pre, b :: s => if a = b then stripPrefix pre s else none

def dropBlanks : List Char → List Char
  | [] => []
  | c :: r => if c = ' ' ∨ c = '\t' then dropBlanks r else c :: r

/-- The value of the unit file's `ExecStart=` setting.  Refused: a file containing a carriage
return or NUL (systemd ends lines there too), a file in which any line ends with a backslash (line
continuation), and a file that does not have exactly one line beginning (after blanks) with
`ExecStart`, that one beginning with `ExecStart=` in the first column. -/
def unitExecStart (text : List Char) : Option (List Char) :=
  let lines := splitLines text
  if text.any (fun c => c = '\r' || c = Char.ofNat 0) then none
  else if lines.any (fun l => l.getLast? == some '\\') then none
  else
    match lines.filter (fun l => (stripPrefix "ExecStart".toList (dropBlanks l)).isSome) with
    | [l] => stripPrefix "ExecStart=".toList l
    | _ => none

/-- unit file text ↦ argument vector -/
def parseUnit (text : List Char) (inst : List Char) : Option (List (List Char)) :=
  match unitExecStart text with
  | some line => parseExecStart line inst
  | none => none

end TmVerif
