/-
C13 — the declarative expansion: what a layout written with `{row}` / `{letters}` rows and `@alias`
modifiers MEANS, written as comprehensions, independently of the imperative model
`Model/Convert.lean` (no odometer, no index arithmetic, no hash tables, no mutation).

  expand F =  for each source mapping, in source order:
                alias definition  → itself as a mapping, unless it is a lone modifier key
                single mapping    → one mapping per choice of alias definitions
                row mapping       → per choice of alias definitions, one mapping per non-space letter
                repeat-only entry → nothing in this pass
              then the repeat-only entries, in source order, per choice of alias definitions:
                set the repeat of the mappings (of the first pass) with the same trigger SET,
                or append an identity mapping if there is none
              then: reject if a trigger or an output lists a key twice.

"Choice of alias definitions": every alias modifier of the trigger is a slot; a choice picks one
definition per slot; all choices are listed with the FIRST slot varying fastest (`choices`).
Output-side aliases stand for the keys chosen on the trigger side (for an alias that occurs twice
in the trigger: the later slot).

The file is linked into the native driver (commands `C13`, `C13X` of `Driver/LoadCmd.lean`): the
harness evaluates `expand` on every generated program and compares it with the implementation's
output and with the imperative model.  `Props/C13.lean` states `convert F = expand F`.

Errors are part of the meaning (`Outcome.error`; messages are not modelled); `expand` never yields
`Outcome.panic`.
-/
import TmVerif.Model.Load

namespace TmVerif
namespace Expand
open Outcome Fancy TmVerif.Tables

/-! ## alias definitions and choices -/

/-- the definitions of alias `name`, in layout order -/
def defsOf (F : Fancy.Layout) (name : List Char) : List AliasMapping :=
  F.filterMap fun m =>
    match m with
    | Mapping.alias a => if a.to.terminal = name then some a else none
    | _ => none

/-- the alias modifiers of a trigger, in order: one slot each -/
def slots : List Modifier → List (List Char)
  | [] => []
  | Modifier.alias n :: ms => n :: slots ms
  | Modifier.key _ :: ms => slots ms

/-- the candidate definitions of every slot; `none` if some alias has no definition -/
def slotDefs (F : Fancy.Layout) : List (List Char) → Option (List (List AliasMapping))
  | [] => some []
  | n :: ns =>
    match defsOf F n, slotDefs F ns with
    | [], _ => none
    | _, none => none
    | d :: ds, some rest => some ((d :: ds) :: rest)

/-- all ways of choosing one element per list; the FIRST list varies fastest:
`choices [[a,b],[x,y]] = [[a,x],[b,x],[a,y],[b,y]]`, `choices [] = [[]]` -/
def choices {α : Type} : List (List α) → List (List α)
  | [] => [[]]
  | ds :: rest => (choices rest).flatMap fun tail => ds.map fun d => d :: tail

/-- trigger side: a plain key stands for itself, an alias slot for the keys of its chosen definition -/
def trigger : List Modifier → List AliasMapping → List Key
  | [], _ => []
  | Modifier.key k :: ms, ch => k :: trigger ms ch
  | Modifier.alias _ :: ms, d :: ch => d.frm.keys ++ trigger ms ch
  | Modifier.alias _ :: ms, [] => trigger ms []

/-- the definition chosen for the LAST slot named `n`, given the slot names and the choice -/
def lastChosen : List (List Char) → List AliasMapping → List Char → Option AliasMapping
  | n' :: names, d :: ch, n =>
    match lastChosen names ch n with
    | some d' => some d'
    | none => if n' = n then some d else none
  | _, _, _ => none

/-- the definition chosen on the trigger side for alias `n`: that of the last slot named `n` -/
def chosen (mods : List Modifier) (ch : List AliasMapping) (n : List Char) : Option AliasMapping :=
  lastChosen (slots mods) ch n

/-- output side: an alias stands for the keys chosen on the trigger side; it is an error to use an
alias that is not on the trigger side -/
def outMods (mods : List Modifier) (ch : List AliasMapping) : List Modifier → Outcome (List Key)
  | [] => ok []
  | Modifier.key k :: ms => (outMods mods ch ms).bind fun rest => ok (k :: rest)
  | Modifier.alias n :: ms =>
    match chosen mods ch n with
    | none => error
    | some d => (outMods mods ch ms).bind fun rest => ok (d.frm.keys ++ rest)

/-- a list of output keys (`to`, or the keys of a special repeat): `[]` maps to nothing -/
def outKeys (mods : List Modifier) (ch : List AliasMapping) (to : SingleToKeys) : Outcome (List Key) :=
  match to.terminal with
  | Terminal.null => ok []
  | Terminal.physical k => (outMods mods ch to.initial).bind fun ks => ok (ks ++ [k])

def outRepeat (mods : List Modifier) (ch : List AliasMapping) : SingleRepeat → Outcome Repeat
  | SingleRepeat.normal => ok Repeat.normal
  | SingleRepeat.disabled => ok Repeat.disabled
  | SingleRepeat.special keys d i => (outKeys mods ch keys).bind fun ks => ok (Repeat.special ks d i)

/-! ## single mappings -/

def expandSingleOne (s : SingleMapping) (ch : List AliasMapping) : Outcome TmVerif.Mapping :=
  (outKeys s.frm.modifiers ch s.to).bind fun to =>
  (outRepeat s.frm.modifiers ch s.rep).bind fun rep =>
  (outMods s.frm.modifiers ch s.absorbing).bind fun absorbing =>
  ok ⟨trigger s.frm.modifiers ch ++ [s.frm.key], to, rep, absorbing⟩

/-- one mapping per choice of alias definitions -/
def expandSingle (F : Fancy.Layout) (s : SingleMapping) : Outcome (List TmVerif.Mapping) :=
  match slotDefs F (slots s.frm.modifiers) with
  | none => error
  | some ds => mapM (expandSingleOne s) (choices ds)

/-! ## row mappings -/

/-- the keys of a physical row, left to right -/
def rowKeys : Row → List Key
  | Row.grave => (rowTable[0]?.map (·.2)).getD []
  | Row.one => (rowTable[1]?.map (·.2)).getD []
  | Row.q => (rowTable[2]?.map (·.2)).getD []
  | Row.a => (rowTable[3]?.map (·.2)).getD []
  | Row.z => (rowTable[4]?.map (·.2)).getD []

/-- how a US-QWERTY keyboard produces a character: (needs Shift, key) -/
def charKey (c : Char) : Option (Bool × Key) :=
  (charTable.find? fun e => e.1 == c.toNat).map (·.2)

/-- the Shift to use: right Shift if the trigger contains right Shift (54), else left Shift (42) -/
def shiftFor (trig : List Key) : Key := if trig.contains 54 then 54 else 42

/-- the keys that type letter `c` after the modifiers `mods`; a space means "unmapped" -/
def letterKeys (trig mods : List Key) (c : Char) : Outcome (Option (List Key)) :=
  if c = ' ' then ok none
  else
    match charKey c with
    | none => error
    | some (sh, k) => ok (some (mods ++ (if sh then [shiftFor trig] else []) ++ [k]))

/-- the repeat of the mapping at letter position `i` of a row mapping -/
def rowRepeatAt (trig : List Key) (rmods : List Key) (rep : RowRepeat) (i : Nat) : Outcome Repeat :=
  match rep with
  | RowRepeat.normal => ok Repeat.normal
  | RowRepeat.disabled => ok Repeat.disabled
  | RowRepeat.special keys d iv =>
    match keys.terminal[i]? with
    | none => ok Repeat.normal
    | some c =>
      (letterKeys trig rmods c).bind fun r =>
      match r with
      | none => ok Repeat.normal
      | some ks => ok (Repeat.special ks d iv)

/-- the modifiers of a special row repeat; a row repeat may not have more letters than the row's `to` -/
def rowRepeatMods (r : RowMapping) (ch : List AliasMapping) : Outcome (List Key) :=
  match r.rep with
  | RowRepeat.special keys _ _ =>
    if keys.terminal.length > r.to.terminal.length then error
    else outMods r.frm.modifiers ch keys.initial
  | _ => ok []

/-- the mapping (or nothing, for a space) at letter position `i` -/
def expandRowAt (r : RowMapping) (ch : List AliasMapping) (trig toMods rmods : List Key)
    (p : Nat × Char) : Outcome (List TmVerif.Mapping) :=
  match (rowKeys r.frm.row)[p.1]? with
  | none => error                               -- more letters than the row has keys
  | some key =>
    (letterKeys trig toMods p.2).bind fun to =>
    match to with
    | none => ok []
    | some to =>
      (rowRepeatAt trig rmods r.rep p.1).bind fun rep =>
      (outMods r.frm.modifiers ch r.absorbing).bind fun absorbing =>
      ok [⟨trig ++ [key], to, rep, absorbing⟩]

def expandRowOne (r : RowMapping) (ch : List AliasMapping) : Outcome (List TmVerif.Mapping) :=
  let trig := trigger r.frm.modifiers ch
  (outMods r.frm.modifiers ch r.to.initial).bind fun toMods =>
  (rowRepeatMods r ch).bind fun rmods =>
  (mapM (expandRowAt r ch trig toMods rmods) ((List.range r.to.terminal.length).zip r.to.terminal)).bind fun ms =>
  ok ms.flatten

/-- per choice of alias definitions, one mapping per non-space letter -/
def expandRow (F : Fancy.Layout) (r : RowMapping) : Outcome (List TmVerif.Mapping) :=
  match slotDefs F (slots r.frm.modifiers) with
  | none => error
  | some ds => (mapM (expandRowOne r) (choices ds)).bind fun groups => ok groups.flatten

/-! ## alias definitions -/

/-- the eight modifier keys: left/right Shift 42 54, Alt 56 100, Ctrl 29 97, Meta 125 126 -/
def isModifier (k : Key) : Bool := k ∈ [42, 54, 56, 100, 29, 97, 125, 126]

/-- an alias definition is also a mapping from its keys to its extra output keys — unless it is a
single modifier key (which then keeps passing through) -/
def expandAlias (a : AliasMapping) : List TmVerif.Mapping :=
  match a.frm.keys with
  | [k] => if isModifier k then [] else [⟨[k], a.to.initial, Repeat.normal, []⟩]
  | ks => [⟨ks, a.to.initial, Repeat.normal, []⟩]

/-! ## the two passes -/

def expandMapping (F : Fancy.Layout) : Fancy.Mapping → Outcome (List TmVerif.Mapping)
  | Mapping.alias a => ok (expandAlias a)
  | Mapping.single s => expandSingle F s
  | Mapping.row r => expandRow F r
  | Mapping.repeatOnly _ => ok []

/-- same trigger SET: the same final key, and the same other keys up to order (as multisets) -/
def sameTrigger (a b : List Key) : Bool :=
  a.getLast? == b.getLast? && (a.dropLast ++ b.dropLast).all fun k => a.dropLast.count k == b.dropLast.count k

/-- (trigger, repeat) for every choice of alias definitions of a repeat-only entry -/
def repeatOnlyOne (s : RepeatOnlySingleMapping) (ch : List AliasMapping) : Outcome (List Key × Repeat) :=
  (outRepeat s.frm.modifiers ch s.rep).bind fun rep => ok (trigger s.frm.modifiers ch ++ [s.frm.key], rep)

def repeatOnlyEntries (F : Fancy.Layout) : Fancy.Mapping → Outcome (List (List Key × Repeat))
  | Mapping.repeatOnly s =>
    match slotDefs F (slots s.frm.modifiers) with
    | none => error
    | some ds => mapM (repeatOnlyOne s) (choices ds)
  | _ => ok []

/-- apply one repeat-only instruction: `n` = number of mappings of the first pass (identity
mappings added by earlier instructions are not looked at) -/
def applyRepeat (n : Nat) (cur : List TmVerif.Mapping) (e : List Key × Repeat) : List TmVerif.Mapping :=
  if (cur.take n).any (fun m => sameTrigger m.frm e.1) then
    (cur.take n).map (fun m => if sameTrigger m.frm e.1 then { m with rep := e.2 } else m) ++ cur.drop n
  else cur ++ [⟨e.1, e.1, e.2, []⟩]

/-- the declarative expansion of a fancy layout -/
def expand (F : Fancy.Layout) : Outcome TmVerif.Layout :=
  (mapM (expandMapping F) F).bind fun groups =>
  (mapM (repeatOnlyEntries F) F).bind fun entries =>
  let base := groups.flatten
  let res := entries.flatten.foldl (applyRepeat base.length) base
  if res.all (fun m => m.frm.Nodup && m.to.Nodup) then ok res else error

/-- load by the specification: parse, then expand -/
def loadSpec (j : Json) : Outcome TmVerif.Layout := (parseLayoutFromJson j).bind expand

end Expand
end TmVerif
