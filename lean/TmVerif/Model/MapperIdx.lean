/-
M1-idx — index-faithful twin of the mapper model (`Model/Mapper.lean`).

`Model/Mapper.lean` models the index loops of `src/key_transforms.rs` by list recursion, so it cannot
express an index-out-of-bounds panic.  This file re-models, as literally as possible, every function
of `key_transforms.rs` that indexes a `Vec` (`v[i]`), calls `Vec::remove(i)`, subtracts from a
`usize`/`len()`, or casts to/from `isize`.  Indices are `Nat` (`usize`) or `Int` (`isize`); vectors are
lists; EVERY operation that panics in Rust returns `none`:

* `v[i]` with `i >= v.len()`                     — `vecGet` (`v[i]?`)
* `v.remove(i)` with `i >= v.len()`              — `vecRemove`
* `a - b` on `usize` with `b > a`                — `usizeSub` (debug build: "attempt to subtract with
  overflow"; release build: wraps to a huge value, and the index that follows is out of bounds)
* `i as usize` for a negative `i : isize`        — `isizeToUsize` (the cast itself wraps to a value
  `>= 2^63`, larger than any `Vec` length, so the index that follows panics)
* the explicit `panic!("Duplicate key …")` of `make_hashed_layout`.

`len() as isize` is modelled by the inclusion `Nat → Int` (a `Vec` never has more than `isize::MAX`
elements, so this cast never wraps).  `while` loops carry a fuel argument; running out of fuel also gives
`none` (so `none` = "panics or needs more iterations than the fuel given"); the callers give
`len + 1` and `Proofs/MapperIdx.lean` shows `none` is never produced.

Functions of the Rust file that only use iterators / `contains` / `retain` / `push` are reused from
the structural model (`consume`, `collectKeys`, `pressAll`, `addAbsorbed`, `releaseAllActionKeys`,
`isSupported`, `findMapping`, `addPhase1/3/4`, …).

No proofs in this file.  The equivalence with the structural model is `Proofs/MapperIdx.lean`.
-/
import TmVerif.Model.Mapper

namespace TmVerif

/-! ## the panicking primitives -/

/-- `a - b` on `usize`; `none` = underflow panic -/
def usizeSub (a b : Nat) : Option Nat :=
  match decide (b ≤ a) with
  | true => some (a - b)
  | false => none

/-- `v[i]`; `none` = index out of bounds -/
def vecGet {α : Type} (v : List α) (i : Nat) : Option α := v[i]?

/-- `v.remove(i)`: returns the shortened vector; `none` = "removal index (is i) should be < len" panic -/
def vecRemove {α : Type} (v : List α) (i : Nat) : Option (List α) :=
  match v[i]? with
  | none => none
  | some _ => some (v.eraseIdx i)

/-- `i as usize` for `i : isize` (only ever used as an index): `none` for a negative `i` -/
def isizeToUsize (i : Int) : Option Nat :=
  match i with
  | Int.ofNat n => some n
  | Int.negSucc _ => none

/-! ## `final_key`, `make_hashed_layout`, `for_layout` -/

/-- `final_key`: `trigger[trigger.len() - 1]` -/
def finalKeyIdx (trigger : List Key) : Option Key :=
  match usizeSub trigger.length 1 with
  | none => none
  | some i => vecGet trigger i

/-- `for j in j .. v.len() { if v[i] == v[j] { panic!("Duplicate key") } }` with `fuel` iterations left.
`some true` = a duplicate was found (the explicit `panic!`), `some false` = loop ran to its end,
`none` = an index was out of bounds. -/
def dupInnerIdx (v : List Key) (i : Nat) : Nat → Nat → Option Bool
  | _, 0 => some false
  | j, fuel + 1 =>
    match vecGet v i with
    | none => none
    | some a =>
      match vecGet v j with
      | none => none
      | some b => if a == b then some true else dupInnerIdx v i (j + 1) fuel

/-- `for i in i .. v.len() { for j in i+1 .. v.len() { … } }` with `fuel` iterations left.
The inner range `i+1 .. len` has `len - (i+1)` iterations (truncated: a Rust range with `start >= end`
is empty and does not panic). -/
def dupOuterIdx (v : List Key) : Nat → Nat → Option Bool
  | _, 0 => some false
  | i, fuel + 1 =>
    match dupInnerIdx v i (i + 1) (v.length - (i + 1)) with
    | none => none
    | some true => some true
    | some false => dupOuterIdx v (i + 1) fuel

/-- one of the two duplicate checks of `make_hashed_layout` on one vector -/
def hasDupIdx (v : List Key) : Option Bool := dupOuterIdx v 0 v.length

/-- first `for mapping in &layout.mappings` loop of `make_hashed_layout`; `none` = some panic
(duplicate or index) -/
def checkDupsIdx : List Mapping → Option Unit
  | [] => some ()
  | m :: ms =>
    match hasDupIdx m.frm with
    | none => none
    | some true => none
    | some false =>
      match hasDupIdx m.to with
      | none => none
      | some true => none
      | some false => checkDupsIdx ms

/-- second loop of `make_hashed_layout`.  The `HashMap<KeyCode, Vec<Mapping>>` is represented by the
list of `(final_key, mapping)` pairs in insertion (= layout) order; see `lookupIdx`. -/
def hashLoopIdx : List Mapping → Option (List (Key × Mapping))
  | [] => some []
  | m :: ms =>
    match finalKeyIdx m.frm with
    | none => none
    | some last =>
      match hashLoopIdx ms with
      | none => none
      | some h => some ((last, m) :: h)

/-- `make_hashed_layout` -/
def makeHashedLayoutIdx (L : Layout) : Option (List (Key × Mapping)) :=
  match checkDupsIdx L with
  | none => none
  | some () => hashLoopIdx L

/-- `mappings.get(&k)` on the representation of the hash map (empty list = `None`) -/
def lookupIdx (H : List (Key × Mapping)) (k : Key) : List Mapping :=
  (H.filter fun p => p.1 == k).map fun p => p.2

/-- `Mapper::for_layout`: `none` = panic -/
def forLayoutIdx (L : Layout) : Option State :=
  match makeHashedLayoutIdx L with
  | none => none
  | some _ => some State.init

/-! ## `is_action_mapping`, `release_action_mappings` -/

/-- `is_action_mapping`: `m.to[m.to.len() - 1]` guarded by `m.to.len() == 0` -/
def isActionMappingIdx (m : Mapping) : Option Bool :=
  if m.to.length == 0 then some false
  else
    match usizeSub m.to.length 1 with
    | none => none
    | some i =>
      match vecGet m.to i with
      | none => none
      | some lastKey => some (isActionKey lastKey)

/-- outer loop of `release_action_mappings` (calls `is_action_mapping`) -/
def keysToReleaseIdx (mapped : List Key) : List Key → List Mapping → Option (List Key)
  | acc, [] => some acc
  | acc, m :: ms =>
    match isActionMappingIdx m with
    | none => none
    | some a =>
      if a && decide (m.to.length > 1) && isAnyModifier m.to then
        keysToReleaseIdx mapped (collectKeys mapped acc m.to.reverse) ms
      else keysToReleaseIdx mapped acc ms

/-- `release_action_mappings` -/
def releaseActionMappingsIdx (s : State) : Option (State × List Event) :=
  match keysToReleaseIdx s.mapped [] s.active with
  | none => none
  | some ktr =>
    some ({ s with mapped := s.mapped.filter (fun k => !ktr.contains k),
                   pass := s.pass.filter (fun k => !ktr.contains k) },
          ktr.map Event.released)

/-! ## `remove_mapping` -/

/-- The two inner loops of `remove_mapping`
(`for j in 0 .. active_mappings.len() { if j != i { if active_mappings[j].SEL.contains(&k) { flag = true; break } } }`,
`sel = Mapping.to` for `still_used`, `sel = Mapping.frm` for `still_shadowed`): loop counter `j`,
`fuel` iterations left; returns the flag. -/
def anyOtherIdx (sel : Mapping → List Key) (active : List Mapping) (i : Nat) (k : Key) :
    Nat → Nat → Option Bool
  | _, 0 => some false
  | j, fuel + 1 =>
    if j != i then
      match vecGet active j with
      | none => none
      | some m =>
        if (sel m).contains k then some true
        else anyOtherIdx sel active i k (j + 1) fuel
    else anyOtherIdx sel active i k (j + 1) fuel

/-- The `for mapped_output_i in (0 .. state.mapped_output_keys.len()).rev()` loop of `remove_mapping`.
First argument `n`: number of iterations left, the current index is `n - 1` (the range is evaluated once,
before the loop, so the counter does not see the removals).  Loop state: `mapped_output_keys`,
`pass_through_keys`, `res`. -/
def removeLoopIdx (inp : List Key) (active : List Mapping) (i : Nat) (removedKey : Key) :
    Nat → List Key → List Key → List Event → Option (List Key × List Key × List Event)
  | 0, mapped, pass, res => some (mapped, pass, res)
  | moi + 1, mapped, pass, res =>
    match vecGet mapped moi with                                   -- let k = mapped_output_keys[mapped_output_i]
    | none => none
    | some k =>
      match anyOtherIdx Mapping.to active i k 0 active.length with  -- still_used
      | none => none
      | some true => removeLoopIdx inp active i removedKey moi mapped pass res
      | some false =>
        if inp.contains k && k != removedKey then
          match anyOtherIdx Mapping.frm active i k 0 active.length with  -- still_shadowed
          | none => none
          | some false =>
            match vecRemove mapped moi with                          -- mapped_output_keys.remove(mapped_output_i)
            | none => none
            | some mapped' => removeLoopIdx inp active i removedKey moi mapped' (pass ++ [k]) res
          | some true =>
            match vecRemove mapped moi with
            | none => none
            | some mapped' =>
              removeLoopIdx inp active i removedKey moi mapped' pass (res ++ [Event.released k])
        else
          match vecRemove mapped moi with
          | none => none
          | some mapped' =>
            removeLoopIdx inp active i removedKey moi mapped' pass (res ++ [Event.released k])

/-- `remove_mapping(state, i, removed_key)`: the loop, then `active_mappings.remove(i)` -/
def removeMappingIdx (s : State) (i : Nat) (removedKey : Key) : Option (State × List Event) :=
  match removeLoopIdx s.inp s.active i removedKey s.mapped.length s.mapped s.pass [] with
  | none => none
  | some (mapped, pass, res) =>
    match vecRemove s.active i with
    | none => none
    | some active => some ({ s with mapped := mapped, pass := pass, active := active }, res)

/-! ## the `while i >= 0` loop and the descending pass-through scan -/

/-- The loop
`while i >= 0 { if fails_when_released(&active_mappings[i as usize].from, &k) { events.append(&mut remove_mapping(state, i as usize, k)); } i -= 1; }`
of `newly_release` and `release_absorbed_keys`.  `i : isize`; note that `remove_mapping` shortens
`active_mappings` and the loop goes on with `i - 1`.  `fuel` bounds the number of loop tests. -/
def whileIdx (k : Key) : Nat → Int → State → List Event → Option (State × List Event)
  | 0, _, _, _ => none
  | fuel + 1, i, s, events =>
    if i >= 0 then
      match isizeToUsize i with
      | none => none
      | some iu =>
        match vecGet s.active iu with
        | none => none
        | some m =>
          if failsWhenReleased m.frm k then
            match removeMappingIdx s iu k with
            | none => none
            | some (s1, e1) => whileIdx k fuel (i - 1) s1 (events ++ e1)
          else whileIdx k fuel (i - 1) s events
    else some (s, events)

/-- `let mut i: isize = state.active_mappings.len() as isize - 1; while i >= 0 { … }` -/
def dropFailingIdx (k : Key) (s : State) : Option (State × List Event) :=
  whileIdx k (s.active.length + 1) ((s.active.length : Int) - 1) s []

/-- `for i in (0 .. pass_through_keys.len()).rev() { if pass_through_keys[i] == k { events.push(Released(k)); pass_through_keys.remove(i); break; } }`.
First argument: iterations left, the current index is one less. -/
def passScanIdx (k : Key) : Nat → List Key → Option (List Key × List Event)
  | 0, pass => some (pass, [])
  | i + 1, pass =>
    match vecGet pass i with
    | none => none
    | some x =>
      if x == k then
        match vecRemove pass i with
        | none => none
        | some pass' => some (pass', [Event.released k])
      else passScanIdx k i pass

/-- the descending scan followed by `input_pressed_keys.retain(|k2| k2 != k)` -/
def releaseTailIdx (s : State) (k : Key) : Option (State × List Event) :=
  match passScanIdx k s.pass.length s.pass with
  | none => none
  | some (pass, e2) => some ({ s with pass := pass, inp := s.inp.filter (fun k2 => k2 != k) }, e2)

/-- the code shared by `newly_release` and the body of the `for k in to_remove` loop of
`release_absorbed_keys` -/
def releaseKeyIdx (s : State) (k : Key) : Option (State × List Event) :=
  match dropFailingIdx k s with
  | none => none
  | some (s1, e1) =>
    match releaseTailIdx s1 k with
    | none => none
    | some (s2, e2) => some (s2, e1 ++ e2)

def releaseAbsorbedLoopIdx : State → List Key → Option (State × List Event)
  | s, [] => some (s, [])
  | s, k :: ks =>
    match releaseKeyIdx s k with
    | none => none
    | some (s1, e1) =>
      match releaseAbsorbedLoopIdx s1 ks with
      | none => none
      | some (s2, e2) => some (s2, e1 ++ e2)

/-- `release_absorbed_keys` -/
def releaseAbsorbedKeysIdx (s : State) : Option (State × List Event) :=
  let toRemove := s.absorbed
  releaseAbsorbedLoopIdx { s with absorbed := [], absTrig := none } toRemove

/-! ## `add_new_mapping`, `newly_press`, `newly_release`, `step`, `release_all` -/

/-- `add_new_mapping`, second part: `if produces_action_key(m) { release_action_mappings }`, then
`if should_absorb && (produces_action_key(m) || m.absorbing.len() > 0) { release_absorbed_keys; consume }`
(fix of D7: `produces_action_key` is `m.to.iter().any(is_action_key)`, an iterator, so the condition itself has no
panic outcome; before the fix it was `is_action_mapping(m)`, an indexed access.  Fix of D6: the second block is no
longer nested in the first; `m.absorbing.len() > 0` has no panic outcome either.) -/
def addPhase2Idx (s : State) (newKey : Key) (m : Mapping) : Option (State × List Event) :=
  match (if producesActionKey m then releaseActionMappingsIdx s else some (s, [])) with
  | none => none
  | some r1 =>
    if shouldAbsorb r1.1 newKey && (producesActionKey m || decide (m.absorbing.length > 0)) then
      match releaseAbsorbedKeysIdx r1.1 with
      | none => none
      | some r2 =>
        -- fix of D5: consume the pass-through keys once more (no index arithmetic: a `retain`)
        let r3 := addPhase1 r2.1 m
        some (r3.1, r1.2 ++ r2.2 ++ r3.2)
    else some r1

/-- `add_new_mapping` (parts one, three and four have no index arithmetic) -/
def addNewMappingIdx (s : State) (newKey : Key) (m : Mapping) : Option (State × StepResult) :=
  match addPhase2Idx (addPhase1 s m).1 newKey m with
  | none => none
  | some r2 =>
    some ((addPhase4 (addPhase3 r2.1 newKey m).1 newKey m).1,
          ⟨(addPhase1 s m).2 ++ r2.2 ++ (addPhase3 r2.1 newKey m).2 ++
             (addPhase4 (addPhase3 r2.1 newKey m).1 newKey m).2.1,
           (addPhase4 (addPhase3 r2.1 newKey m).1 newKey m).2.2⟩)

/-- the pass-through branch of `newly_press` -/
def passThroughIdx (s : State) (k : Key) : Option (State × List Event) :=
  if isActionKey k then
    match releaseActionMappingsIdx s with
    | none => none
    | some r1 =>
      match releaseAbsorbedKeysIdx r1.1 with
      | none => none
      | some r2 => some ({ r2.1 with pass := r2.1.pass ++ [k] }, (r1.2 ++ r2.2) ++ [Event.pressed k])
  else some ({ s with pass := s.pass ++ [k] }, [] ++ [Event.pressed k])

/-- `newly_press` (the group lookup `mappings.get(&k)` and the search
`for mapping in mappings.iter().rev()` use no index: `findMapping` is reused) -/
def newlyPressIdx (L : Layout) (s : State) (k : Key) : Option (State × StepResult) :=
  match findMapping L s k with
  | some m =>
    match addNewMappingIdx (pressPrep s k) k m with
    | none => none
    | some r => some ({ r.1 with inp := r.1.inp ++ [k] }, r.2)
  | none =>
    if !((pressPrep s k).active.any fun m => m.frm.contains k || m.to.contains k) &&
        !(pressPrep s k).pass.contains k then
      match passThroughIdx (pressPrep s k) k with
      | none => none
      | some r => some ({ r.1 with inp := r.1.inp ++ [k] }, ⟨r.2, RRepeat.disabled⟩)
    else
      some ({ pressPrep s k with inp := (pressPrep s k).inp ++ [k] }, ⟨[], RRepeat.disabled⟩)

/-- `newly_release` -/
def newlyReleaseIdx (s : State) (k : Key) : Option (State × StepResult) :=
  match releaseKeyIdx s k with
  | none => none
  | some (s1, e1) => some (s1, ⟨e1, RRepeat.disabled⟩)

/-- `Mapper::step` -/
def stepIdx (L : Layout) (s : State) (e : Event) : Option (State × StepResult) :=
  match e with
  | Event.pressed k =>
    if !s.inp.contains k then newlyPressIdx L s k else some (s, ⟨[], RRepeat.noChange⟩)
  | Event.released k =>
    if s.inp.contains k then newlyReleaseIdx s k else some (s, ⟨[], RRepeat.noChange⟩)

/-- the `for k in to_release` loop of `release_all` -/
def releaseAllLoopIdx (L : Layout) : State → List Key → Option (State × List Event)
  | s, [] => some (s, [])
  | s, k :: ks =>
    match stepIdx L s (Event.released k) with
    | none => none
    | some (s1, r) =>
      match releaseAllLoopIdx L s1 ks with
      | none => none
      | some (s2, e2) => some (s2, r.events ++ e2)

/-- `Mapper::release_all` -/
def releaseAllIdx (L : Layout) (s : State) : Option (State × List Event) :=
  releaseAllLoopIdx L s s.inp

/-- twin of `run`: a history of key events from a state; `none` as soon as one step panics.
(The history type with release-all calls, `Op`, lives in `Proofs/Reach.lean`; `runIdx` over `List Op`
is in `Model/MapperIdxOps.lean`.) -/
def runEvIdx (L : Layout) : State → List Event → Option (State × List StepResult)
  | s, [] => some (s, [])
  | s, e :: es =>
    match stepIdx L s e with
    | none => none
    | some (s1, r) =>
      match runEvIdx L s1 es with
      | none => none
      | some (s2, rs) => some (s2, r :: rs)

end TmVerif
