/-
M2-env — an EDGE-TRIGGERED readiness environment for the loop model (`Model/Loop.lean`), and the
CLOSED system "loop ∥ environment".

The loop model is open: its theorems hold for any script of driver answers.  What they cannot say
is that every event that ARRIVES is eventually READ.  For that the answers must come from an
environment that remembers what has arrived and what has been read.  This is the environment of the
Rust test harness that drives the real loop (and of epoll with `EPOLLET`, which is what mio uses):

  * each device (keyboard, tablet switch) has a FIFO queue of unread events, a `gone` marker
    (the device will report `ENODEV` once its queue is empty) and a READINESS FLAG;
  * the flag is set by every arrival (of events, or of end-of-device) and cleared only when a `poll`
    reports the device.  Reading does not touch it, an empty read (`EAGAIN`) does not touch it: if
    the loop stops reading a device before `Busy`, nothing will ever tell it about the rest;
  * arrivals happen at any time, between any two driver calls.

Only successful calls are modelled (failing calls are C20).  Plain definitions, no proofs.
-/
import TmVerif.Model.Loop

namespace TmVerif

/-- one arrival: something becomes readable on ONE device -/
inductive Arrival where
  | kbd (evs : List Event)       -- a batch of keyboard events (an empty batch is a spurious readiness notification)
  | kbdGone                      -- the keyboard disappears: `ENODEV` once its queue is empty
  | tab (evs : List TabletEv)    -- a batch of tablet-switch events
  | tabGone                      -- the tablet switch disappears
deriving DecidableEq, Repr, Inhabited

/-- the environment -/
structure Env where
  kq : List Event          -- unread keyboard events, oldest first
  kflag : Bool             -- keyboard readiness flag (edge-triggered)
  kgone : Bool             -- keyboard gone
  tq : List TabletEv       -- unread tablet-switch events
  tflag : Bool             -- tablet-switch readiness flag
  tgone : Bool             -- tablet switch gone
  rest : List Arrival      -- the schedule: what has not arrived yet, in arrival order
deriving DecidableEq, Repr, Inhabited

/-- nothing has arrived yet -/
def Env.init (sched : List Arrival) : Env := ⟨[], false, false, [], false, false, sched⟩

/-- the next arrival of the schedule happens: append to the queue / mark gone, and SET THE FLAG -/
def Env.arrive (e : Env) : Option Env :=
  match e.rest with
  | [] => none
  | Arrival.kbd evs :: rest => some { e with kq := e.kq ++ evs, kflag := true, rest := rest }
  | Arrival.kbdGone :: rest => some { e with kgone := true, kflag := true, rest := rest }
  | Arrival.tab evs :: rest => some { e with tq := e.tq ++ evs, tflag := true, rest := rest }
  | Arrival.tabGone :: rest => some { e with tgone := true, tflag := true, rest := rest }

/-- the devices whose flag is set -/
def Env.flagged (e : Env) : List Dev :=
  (if e.kflag then [Dev.keyboard] else []) ++ (if e.tflag then [Dev.tablet] else [])

/-- `poll`: with a flag set, `DeviceEvent` with exactly the flagged devices, in either order, and those
flags are cleared; with no flag set, `TimedOut` (real or spurious) or `Interrupted` -/
def Env.pollAns (e : Env) : PollRes → Option Env
  | PollRes.deviceEvent devs =>
    if e.flagged ≠ [] ∧ (devs = e.flagged ∨ devs = e.flagged.reverse)
    then some { e with kflag := false, tflag := false } else none
  | PollRes.timedOut => if e.kflag = false ∧ e.tflag = false then some e else none
  | PollRes.interrupted => if e.kflag = false ∧ e.tflag = false then some e else none

/-- `next_keyboard`: the queue head; `Busy` if the queue is empty and the device is there; `End` if
the queue is empty and the device is gone -/
def Env.nextKbd (e : Env) : Next Event → Option Env
  | Next.one ev =>
    (match e.kq with
     | ev' :: q => if ev = ev' then some { e with kq := q } else none
     | [] => none)
  | Next.busy => if e.kq = [] ∧ e.kgone = false then some e else none
  | Next.end_ => if e.kq = [] ∧ e.kgone = true then some e else none

/-- `next_tablet`: likewise -/
def Env.nextTab (e : Env) : Next TabletEv → Option Env
  | Next.one tev =>
    (match e.tq with
     | tev' :: q => if tev = tev' then some { e with tq := q } else none
     | [] => none)
  | Next.busy => if e.tq = [] ∧ e.tgone = false then some e else none
  | Next.end_ => if e.tq = [] ∧ e.tgone = true then some e else none

/-- `e.answer c r = some e'`: the environment may answer the call `c` with `r`, and becomes `e'`.
`register_poll`, `send`, `sleep` return; the clock returns any value; no call fails. -/
def Env.answer (e : Env) : Call → Resp → Option Env
  | Call.registerPoll, Resp.unit => some e
  | Call.send _ _, Resp.unit => some e
  | Call.sleep _, Resp.unit => some e
  | Call.now, Resp.time _ => some e
  | Call.poll _, Resp.poll p => e.pollAns p
  | Call.nextKeyboard, Resp.kbd n => e.nextKbd n
  | Call.nextTablet, Resp.tab n => e.nextTab n
  | _, _ => none

/-- a move of the closed system: an arrival, or the answer to the pending call -/
inductive Move where
  | arrive
  | answer (r : Resp)
deriving DecidableEq, Repr, Inhabited

/-- one move (`none`: the move is not possible in this state) -/
def cmove (L : Layout) (s : Machine × Env) : Move → Option (Machine × Env)
  | Move.arrive => s.2.arrive.map (fun e' => (s.1, e'))
  | Move.answer r =>
    match pending s.1 with
    | none => none
    | some c => (s.2.answer c r).map (fun e' => (advance L s.1 r, e'))

/-- the closed-system step relation: the nondeterminism is the choice of the move -/
def CStep (L : Layout) (s s' : Machine × Env) : Prop := ∃ m, cmove L s m = some s'

/-- reachability: reflexive-transitive closure of `CStep` -/
inductive CReach (L : Layout) (s0 : Machine × Env) : Machine × Env → Prop where
  | refl : CReach L s0 s0
  | step {s s' : Machine × Env} : CReach L s0 s → CStep L s s' → CReach L s0 s'

/-- a run given by its moves (`none`: some move was not possible) -/
def crun (L : Layout) : Machine × Env → List Move → Option (Machine × Env)
  | s, [] => some s
  | s, m :: ms => (cmove L s m).bind (fun s' => crun L s' ms)

/-- the driver answers of a run, in order (the script the open model sees) -/
def answers : List Move → List Resp
  | [] => []
  | Move.arrive :: ms => answers ms
  | Move.answer r :: ms => r :: answers ms

/-- blocked on `poll` -/
def Ctl.isPolling : Ctl → Bool
  | Ctl.polling _ => true
  | _ => false

/-- the loop waits with nothing to wake it: blocked on `poll`, no readiness flag set -/
def Quiescent (s : Machine × Env) : Prop :=
  s.1.c.isPolling = true ∧ s.2.kflag = false ∧ s.2.tflag = false

instance (s : Machine × Env) : Decidable (Quiescent s) := by unfold Quiescent; exact inferInstance

/-! ### Histories -/

/-- the keyboard events of a schedule, in arrival order -/
def kbdHist : List Arrival → List Event
  | [] => []
  | Arrival.kbd evs :: as => evs ++ kbdHist as
  | _ :: as => kbdHist as

/-- the tablet-switch events of a schedule, in arrival order -/
def tabHist : List Arrival → List TabletEv
  | [] => []
  | Arrival.tab evs :: as => evs ++ tabHist as
  | _ :: as => tabHist as

/-- an item read by the loop -/
inductive Item where
  | kbd (ev : Event)
  | tab (tev : TabletEv)
deriving DecidableEq, Repr, Inhabited

/-- the keyboard events of a read log -/
def kbdOf : List Item → List Event
  | [] => []
  | Item.kbd ev :: is => ev :: kbdOf is
  | Item.tab _ :: is => kbdOf is

/-- the tablet-switch events of a read log -/
def tabOf : List Item → List TabletEv
  | [] => []
  | Item.kbd _ :: is => tabOf is
  | Item.tab tev :: is => tev :: tabOf is

end TmVerif
