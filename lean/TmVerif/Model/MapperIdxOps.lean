/-
`runIdx`: the index-faithful twin driven by a history of operations (`Op` = a key event through
`Mapper::step`, or a `Mapper::release_all` call).  Separate from `Model/MapperIdx.lean` only because
`Op` is defined in `Proofs/Reach.lean`.  No proofs here.
-/
import TmVerif.Model.MapperIdx
import TmVerif.Proofs.Reach

namespace TmVerif

/-- one operation on the index-faithful mapper: new state and the events written; `none` = panic -/
def opIdx (L : Layout) (s : State) : Op → Option (State × List Event)
  | Op.ev e =>
    match stepIdx L s e with
    | none => none
    | some (s1, r) => some (s1, r.events)
  | Op.relAll => releaseAllIdx L s

/-- the structural counterpart of `opIdx` (what `Sys.next` / `Sys.out` compute on the state component) -/
def opStruct (L : Layout) (s : State) : Op → State × List Event
  | Op.ev e => ((step L s e).1, (step L s e).2.events)
  | Op.relAll => releaseAll L s

def runStruct (L : Layout) : State → List Op → State × List (List Event)
  | s, [] => (s, [])
  | s, op :: ops =>
    ((runStruct L (opStruct L s op).1 ops).1, (opStruct L s op).2 :: (runStruct L (opStruct L s op).1 ops).2)

/-- a whole history (key events and release-all calls) from a state: final state and the per-operation
outputs; `none` as soon as one operation panics -/
def runIdx (L : Layout) : State → List Op → Option (State × List (List Event))
  | s, [] => some (s, [])
  | s, op :: ops =>
    match opIdx L s op with
    | none => none
    | some (s1, out) =>
      match runIdx L s1 ops with
      | none => none
      | some (s2, outs) => some (s2, out :: outs)

end TmVerif
