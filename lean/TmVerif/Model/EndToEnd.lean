/-
M8 — the WIRE-LEVEL composition: bytes read from the keyboard / tablet-switch file descriptors in,
bytes written to the uinput file descriptor out.

Three pieces of Rust meet here that the other models treat separately:

  * `DevInputReader::next` (src/dev_input_rw.rs)              — `decodeStream` (M7)
  * `TabletModeSwitchReader::next` (src/tablet_mode_switch_reader.rs) — `decodeTabletStream` (NEW here):
    one 24-byte `struct input_event` per `read`; a record with type `EV_SW` = 5, code
    `SW_TABLET_MODE` = 1 and value 1 / 0 is `On` / `Off`; every other record is skipped
  * `RealDriver` (src/remapping_loop.rs: mio poll over the two descriptors, `next_keyboard`,
    `next_tablet`, `send` = `DevInputWriter::send`) around `do_remapping_loop_one_device` (M2) around
    `Mapper` (M1).

`wireOfLog L s b lg` is what the loop writes to the uinput descriptor while it reads the log `lg`
(keyboard events and tablet-switch events in the order they are read), starting with mapper state `s`
and tablet mode `b`: per keyboard event read outside tablet mode the `encodeBatch` of the step's
events if there are any, per tablet-switch event the `encodeBatch` of the release-all events if there
are any.  (Timer chords are not part of it — C11.)

Plain definitions, no proofs; linked into the native driver (request `E2E`).
-/
import TmVerif.Model.InputEvent
import TmVerif.Model.LoopEnv

namespace TmVerif

/-- `TabletModeSwitchReader::next` on one record: `type_==5 && code==1 && value==1` is `On`,
`type_==5 && code==1 && value==0` is `Off`, anything else makes `next` read on -/
def decodeTabletRecord (rec : List Nat) : Option TabletEv :=
  if recType rec = 5 ∧ recCode rec = 1 then
    (if recValueU rec = 1 then some TabletEv.on
     else if recValueU rec = 0 then some TabletEv.off
     else none)
  else none

/-- `n` consecutive 24-byte records decoded by the tablet-switch reader -/
def decodeTabletRecs : Nat → List Nat → List TabletEv
  | 0, _ => []
  | n + 1, bytes => (decodeTabletRecord (bytes.take 24)).toList ++ decodeTabletRecs n (bytes.drop 24)

/-- calling `TabletModeSwitchReader::next` until the whole records are drained (`EAGAIN`) -/
def decodeTabletStream (bytes : List Nat) : List TabletEv := decodeTabletRecs (bytes.length / 24) bytes

/-- the record the kernel sends for a tablet-mode switch -/
def encodeTabletEv : TabletEv → List Nat
  | TabletEv.on => encodeRecord 5 1 1
  | TabletEv.off => encodeRecord 5 1 0

/-- the tablet mode after a tablet-switch event -/
def TabletEv.mode : TabletEv → Bool
  | TabletEv.on => true
  | TabletEv.off => false

/-- what becomes readable on one descriptor at one moment: whole records -/
inductive Chunk where
  | kbd (bytes : List Nat)
  | tab (bytes : List Nat)
deriving DecidableEq, Repr, Inhabited

/-- the items the two readers deliver for a chunk -/
def Chunk.items : Chunk → List Item
  | Chunk.kbd b => (decodeStream b).map Item.kbd
  | Chunk.tab b => (decodeTabletStream b).map Item.tab

/-- the chunk as an arrival of the readiness environment (`Model/LoopEnv.lean`) -/
def Chunk.arrival : Chunk → Arrival
  | Chunk.kbd b => Arrival.kbd (decodeStream b)
  | Chunk.tab b => Arrival.tab (decodeTabletStream b)

/-- the bytes of one `DevInputWriter::send` per non-empty batch -/
def wireBatch (evs : List Event) : List Nat := if evs.isEmpty then [] else encodeBatch evs

/-- the bytes written to the uinput descriptor while the loop reads the log `lg`, from mapper state
`s` and tablet mode `b` -/
def wireOfLog (L : Layout) : State → Bool → List Item → List Nat
  | _, _, [] => []
  | s, b, Item.kbd ev :: is =>
    if b then wireOfLog L s b is
    else wireBatch (step L s ev).2.events ++ wireOfLog L (step L s ev).1 b is
  | s, _, Item.tab tev :: is =>
    wireBatch (releaseAll L s).2 ++ wireOfLog L (releaseAll L s).1 tev.mode is

/-- wire level, from a fresh loop: the chunks in the order in which they are READ -/
def wireOut (L : Layout) (chunks : List Chunk) : List Nat :=
  wireOfLog L State.init false (chunks.flatMap Chunk.items)

/-- the number of `send` calls behind `wireOfLog` (the SYN_REPORT records of the output) -/
def sendsOfLog (L : Layout) : State → Bool → List Item → Nat
  | _, _, [] => 0
  | s, b, Item.kbd ev :: is =>
    if b then sendsOfLog L s b is
    else (if (step L s ev).2.events.isEmpty then 0 else 1) + sendsOfLog L (step L s ev).1 b is
  | s, _, Item.tab tev :: is =>
    (if (releaseAll L s).2.isEmpty then 0 else 1) + sendsOfLog L (releaseAll L s).1 tev.mode is

/-! ### Two devices at once: which outputs are possible

When chunks become readable on BOTH descriptors before the loop has drained either, the order in which
the loop reads across the two devices is not determined (two queues; `poll` may report the devices in
either order; the loop drains one device at a time).  The read log is SOME interleaving of the two
per-device logs (`C10_closed`).  `acceptsAny` decides whether the bytes `out` are `wireOfLog` of some
interleaving of the keyboard events `ks` and the tablet-switch events `ts` (depth-first, with the output
bytes as the guide: a branch is followed only while what it would write is a prefix of what was written). -/

/-- `out` with the prefix `w` removed, if `w` is a prefix of it -/
def stripWire (w out : List Nat) : Option (List Nat) :=
  if w.isPrefixOf out then some (out.drop w.length) else none

def acceptsAny (L : Layout) (s : State) (b : Bool) (ks : List Event) (ts : List TabletEv) (out : List Nat) : Bool :=
  match ks, ts with
  | [], [] => out.isEmpty
  | k :: ks', [] =>
    if b then acceptsAny L s b ks' [] out
    else match stripWire (wireBatch (step L s k).2.events) out with
      | some rest => acceptsAny L (step L s k).1 b ks' [] rest
      | none => false
  | [], t :: ts' =>
    (match stripWire (wireBatch (releaseAll L s).2) out with
      | some rest => acceptsAny L (releaseAll L s).1 t.mode [] ts' rest
      | none => false)
  | k :: ks', t :: ts' =>
    (if b then acceptsAny L s b ks' (t :: ts') out
     else match stripWire (wireBatch (step L s k).2.events) out with
      | some rest => acceptsAny L (step L s k).1 b ks' (t :: ts') rest
      | none => false)
    ||
    (match stripWire (wireBatch (releaseAll L s).2) out with
      | some rest => acceptsAny L (releaseAll L s).1 t.mode (k :: ks') ts' rest
      | none => false)
termination_by ks.length + ts.length
decreasing_by all_goals (simp only [List.length_cons]; omega)

/-- wire level, two devices at once: is `out` a possible output for the keyboard bytes `kb` and the
tablet-switch bytes `tb`, read in some interleaved order by a fresh loop? -/
def wireAccepts (L : Layout) (kb tb out : List Nat) : Bool :=
  acceptsAny L State.init false (decodeStream kb) (decodeTabletStream tb) out

/-! ### With the repeat timer

`wireOfTLog` extends `wireOfLog` by TICKS: the moments at which the loop's `poll` timed out with a
repeat armed and the chord was written.  The model keeps the repeat keys armed by the last step result
(`Repeating` arms, `Disabled` disarms, `NoChange` keeps; a tablet-switch event disarms — exactly
`afterStep` and the tablet arm of `advance` in `Model/Loop.lean`); a tick writes `chordOf` of the
mapper state and the armed keys; a tick with nothing armed is impossible (`none`).  WHEN ticks happen
is the clock's business (C11: `C11_deadline`, `C11_first_wait`); suite e2e checks the arrival times
against the real clock and the bytes against this function. -/

/-- the repeat keys armed after a step result -/
def armAfter (cur : Option (List Key)) : RRepeat → Option (List Key)
  | RRepeat.disabled => none
  | RRepeat.noChange => cur
  | RRepeat.repeating keys _ _ => some keys

/-- an item read, or a timer tick -/
inductive TItem where
  | item (i : Item)
  | tick
deriving DecidableEq, Repr, Inhabited

def wireOfTLog (L : Layout) : State → Option (List Key) → Bool → List TItem → Option (List Nat)
  | _, _, _, [] => some []
  | s, rep, b, TItem.item (Item.kbd ev) :: is =>
    if b then wireOfTLog L s rep b is
    else (wireOfTLog L (step L s ev).1 (armAfter rep (step L s ev).2.rep) b is).map
           (fun rest => wireBatch (step L s ev).2.events ++ rest)
  | s, _, _, TItem.item (Item.tab tev) :: is =>
    (wireOfTLog L (releaseAll L s).1 none tev.mode is).map (fun rest => wireBatch (releaseAll L s).2 ++ rest)
  | s, rep, b, TItem.tick :: is =>
    match rep with
    | none => none
    | some keys => (wireOfTLog L s rep b is).map (fun rest => wireBatch (chordOf s keys) ++ rest)

end TmVerif
