/-
Executable statements ("monitors") of the mapper properties, as Bool functions over ONE transition
together with the ghost history summary (P = keys physically held, V = keys held on the virtual
keyboard).  The property theorems in `Props/` state that these functions return `true` on every
transition of the model from every reachable state; the native driver evaluates the very same
functions on the IMPLEMENTATION's transitions (request `M`), which is the failing-input search.

Import-free (linked into the driver).
-/
import TmVerif.Model.Mapper

namespace TmVerif

/-- fold of one event into a held-set (used for both the physical and the virtual keyboard) -/
def applyEv (H : List Key) : Event → List Key
  | Event.pressed k => if H.contains k then H else H ++ [k]
  | Event.released k => H.filter (fun x => x != k)

def foldEvs (H : List Key) (evs : List Event) : List Key := evs.foldl applyEv H

/-- C19: a key is pressed only when it is up and released only when it is down -/
def legal : List Key → List Event → Bool
  | _, [] => true
  | V, Event.pressed k :: es => !V.contains k && legal (V ++ [k]) es
  | V, Event.released k :: es => V.contains k && legal (V.filter (fun x => x != k)) es

def Event.isRelease : Event → Bool
  | Event.released _ => true
  | Event.pressed _ => false

def Event.key : Event → Key
  | Event.released k => k
  | Event.pressed k => k

/-- A transition as observed: layout, ghost sets before, state before, input, outputs, state after. -/
structure Obs where
  L : Layout
  P : List Key
  V : List Key
  s : State
  e : Event
  evs : List Event
  rep : RRepeat
  s' : State

def Obs.P' (o : Obs) : List Key := applyEv o.P o.e
def Obs.V' (o : Obs) : List Key := foldEvs o.V o.evs

/-- the event is acted on (not a press of a key the mapper considers held / release of one it does not) -/
def Obs.accepted (o : Obs) : Bool :=
  match o.e with
  | Event.pressed k => !o.s.inp.contains k
  | Event.released k => o.s.inp.contains k

/-- The mapping fired by this step, observed from outside: an accepted press of `k` after which the
most recently activated mapping ends in `k`. -/
def Obs.fired (o : Obs) : Option Mapping :=
  match o.e with
  | Event.pressed k =>
    if o.s.inp.contains k then none
    else match o.s'.active.getLast? with
      | some m => if finalKey? m == some k then some m else none
      | none => none
  | Event.released _ => none

def monC19 (o : Obs) : Bool := legal o.V o.evs

def monC01 (o : Obs) : Bool := !o.P'.isEmpty || o.V'.isEmpty

/-- every trigger key of `m` is physically held -/
def satisfiedBy (P : List Key) (m : Mapping) : Bool := m.frm.all fun k => P.contains k

def monC02a (o : Obs) : Bool :=
  o.V'.all fun k => o.P'.contains k || o.L.any fun m => m.to.contains k && satisfiedBy o.P' m

/-- has a single-key mapping and occurs in no mapping's output -/
def hidden (L : Layout) (k : Key) : Bool :=
  L.any (fun m => m.frm == [k]) && !L.any (fun m => m.to.contains k)

def monC02b (o : Obs) : Bool :=
  o.V'.all (fun k => !hidden o.L k) &&
  o.evs.all fun ev => match ev with
    | Event.pressed k => !hidden o.L k
    | Event.released _ => true

def monC02c (o : Obs) : Bool :=
  match o.e with
  | Event.released _ => o.evs.all Event.isRelease
  | Event.pressed _ => true

/-- C02(d): the trigger keys of mappings in effect that are held on the virtual keyboard although no
mapping in effect outputs them -/
def unconsumed (active : List Mapping) (V : List Key) : List Key :=
  active.flatMap fun m => m.frm.filter fun k => V.contains k && !active.any fun m2 => m2.to.contains k

/-- while a mapping is in effect its trigger keys are consumed -/
def monC02d (o : Obs) : Bool := (unconsumed o.s'.active o.V').isEmpty

/-- violations of C02(d) that this step introduced -/
def newUnconsumed (o : Obs) : List Key :=
  (unconsumed o.s'.active o.V').filter fun k => !(unconsumed o.s.active o.V).contains k

/-- signature of the FORMER known finding D5 (fixed by b2bd6eb; kept as a record, no monitor consults it): the step fired a key-producing mapping while another press had left
absorbed keys, and every newly unconsumed key was handed back to pass-through during this step (by
`release_absorbed_keys` inside `add_new_mapping`, after the consumption step had already run) -/
def sigD5 (o : Obs) : Bool :=
  (match o.fired with
   | some m => isActionMapping m
   | none => false) &&
  !(o.s.absorbed.filter (fun k => k != o.e.key)).isEmpty &&
  (newUnconsumed o).all fun k => o.s'.pass.contains k && !o.s.pass.contains k

/-- tag of a C02(d) violation introduced by this step, if any -/
def monC02dTag (o : Obs) : Option String :=
  if (newUnconsumed o).isEmpty then none else some "C02:d"

def Repeat.isNormal : Repeat → Bool
  | Repeat.normal => true
  | _ => false

def pressedIn (evs : List Event) (k : Key) : Bool := evs.contains (Event.pressed k)

def monC07 (o : Obs) : Bool :=
  (match o.fired with
   | some m =>
     if m.rep.isNormal then true
     else o.V'.all (fun k => !isActionKey k) &&
          m.to.all (fun k => if isActionKey k then pressedIn o.evs k else o.V'.contains k)
   | none => true)
  && monC02c o

def monC09 (o : Obs) : Bool :=
  if !o.accepted then o.evs.isEmpty && o.rep == RRepeat.noChange && o.s' == o.s
  else match o.e with
    | Event.released _ => o.rep == RRepeat.disabled
    | Event.pressed _ =>
      match o.fired with
      | some m =>
        (match m.rep with
         | Repeat.special keys d i => o.rep == RRepeat.repeating keys d i
         | _ => o.rep == RRepeat.disabled)
      | none => o.rep == RRepeat.disabled

/-- no mapping of the layout has an absorbing list -/
def noAbsLayout (L : Layout) : Bool := L.all fun m => m.absorbing.isEmpty

/-- C03: the mappings that qualify when `k` goes down: final trigger key `k`, and every trigger key
held once `k` is down (`P'` = physically held after the press) -/
def candidates (L : Layout) (P' : List Key) (k : Key) : List Mapping :=
  L.filter fun m => finalKey? m == some k && m.frm.all (fun t => P'.contains t)

/-- C03 (layouts without absorbing): a key going down fires exactly the last-listed qualifying
mapping, whose non-modifier output keys get a press event in this step and whose modifier output
keys are held afterwards (all of them held, with normal repeat); if none qualifies the key is passed
through as the last event of the step, unless a mapping in effect mentions it (then nothing). -/
def monC03 (o : Obs) : Bool :=
  if !noAbsLayout o.L then true else
  match o.e with
  | Event.released _ => true
  | Event.pressed k =>
    if o.P.contains k then true
    else match (candidates o.L o.P' k).getLast? with
      | some m =>
        o.fired == some m &&
        m.to.all (fun y => if isActionKey y then pressedIn o.evs y else o.V'.contains y) &&
        (!m.rep.isNormal || m.to.all (fun y => o.V'.contains y))
      | none =>
        if o.s.active.any (fun m => m.frm.contains k || m.to.contains k) then o.evs.isEmpty
        else o.evs.getLast? == some (Event.pressed k)

/-- C05: the key appears nowhere in the layout -/
def foreign (L : Layout) (k : Key) : Bool :=
  !L.any fun m => m.frm.contains k || m.to.contains k || m.absorbing.contains k

def releasedIn (evs : List Event) (k : Key) : Bool := evs.contains (Event.released k)

/-- the step fired a mapping whose repeat mode is not Normal -/
def Obs.firedNoRepeat (o : Obs) : Bool :=
  match o.fired with
  | some m => !m.rep.isNormal
  | none => false

/-- C05, foreign keys: pressed exactly when physically pressed (as the last event of that step), gone
after the physical release, otherwise untouched — except that a non-modifier one may be lifted by a
step that fires a no-repeat mapping; never pressed by any other step -/
def monC05foreign (o : Obs) : Bool :=
  let k := o.e.key
  (if foreign o.L k && o.accepted then
     match o.e with
     | Event.pressed _ => o.evs.getLast? == some (Event.pressed k) && o.V'.contains k
     | Event.released _ => !o.V'.contains k
   else true) &&
  (o.V ++ o.V' ++ o.evs.map Event.key).all fun x =>
    if foreign o.L x && !(x == k && o.accepted) then
      !pressedIn o.evs x &&
      (o.V.contains x == o.V'.contains x ||
        (o.V.contains x && !o.V'.contains x && isActionKey x && o.firedNoRepeat))
    else true

/-- C05, empty layout: the output stream equals the input stream -/
def monC05empty (o : Obs) : Bool :=
  if o.L.isEmpty then (if o.accepted then o.evs == [o.e] else o.evs.isEmpty) else true

/-- C05, releases: an accepted release of `k` lifts only `k` itself and outputs of mappings (in effect
before) that have `k` in their trigger; in layouts without absorbing, never a key that a mapping
remaining in effect outputs -/
def monC05release (o : Obs) : Bool :=
  match o.e with
  | Event.pressed _ => true
  | Event.released k =>
    if !o.accepted then true
    else o.evs.all fun ev =>
      match ev with
      | Event.pressed _ => false
      | Event.released x =>
        (x == k || o.s.active.any fun m => m.frm.contains k && m.to.contains x) &&
        (!noAbsLayout o.L || !(o.s'.active.any fun m => m.to.contains x))

/-- the output key `y` of `m` is output by no other mapping of the layout -/
def exclusive (L : Layout) (m : Mapping) (y : Key) : Bool :=
  !L.any fun m2 => m2 != m && m2.to.contains y

/-- C05, in-effect mappings (layouts without absorbing): while a mapping stays in effect, an event
about a key outside its trigger does not lift its exclusively-owned modifiers if it is a
modifier-remapping, nor its exclusively-owned output if it is a normal-repeat mapping without
modifiers (the latter unless the step fires a no-repeat mapping) -/
def monC05keep (o : Obs) : Bool :=
  if !noAbsLayout o.L then true else
  o.s.active.all fun m =>
    if !o.s'.active.contains m || m.frm.contains o.e.key then true
    else m.to.all fun y =>
      if !exclusive o.L m y || !o.V.contains y then true
      else if !isActionMapping m then
        (if isActionKey y then true else o.V'.contains y && !releasedIn o.evs y)
      else if m.rep.isNormal && !isAnyModifier m.to then
        o.firedNoRepeat || (o.V'.contains y && !releasedIn o.evs y)
      else true

def monC05 (o : Obs) : Bool := monC05foreign o && monC05empty o && monC05release o && monC05keep o

/-- the events strictly before the LAST occurrence of `ev` (none if `ev` does not occur) -/
def beforeLast (ev : Event) : List Event → Option (List Event)
  | [] => none
  | e :: es =>
    match beforeLast ev es with
    | some pre => some (e :: pre)
    | none => if e == ev then some [] else none

/-- C04 (layouts without absorbing): when a step fires a key-producing mapping, at the instant its final
output key is pressed every modifier of its output is down, and any other modifier down is physically
held and outside the trigger, or output by a held modifier-remapping -/
def monC04 (o : Obs) : Bool :=
  if !noAbsLayout o.L then true else
  match o.fired with
  | none => true
  | some m =>
    if !isActionMapping m then true
    else match m.to.getLast? with
      | none => true
      | some kl =>
        match beforeLast (Event.pressed kl) o.evs with
        | none => false     -- the final output key must be pressed in this step
        | some pre =>
          let W := foldEvs o.V pre
          m.to.all (fun y => isActionKey y || W.contains y) &&
          W.all fun y =>
            isActionKey y || m.to.contains y ||
            (o.P'.contains y && !m.frm.contains y) ||
            o.s.active.any fun m2 => !isActionMapping m2 && m2.to.contains y

/-! ### C08: an absorbed modifier applies to one keystroke only -/

/-- ghost obligation: the mapping `m`, which absorbs `M`, fired on the press of `t` when `held` was
the set of physically held keys; `fresh` = no other key has been pressed since -/
structure Obl where
  M : Key
  t : Key
  m : Mapping
  held : List Key
  fresh : Bool
deriving DecidableEq, Repr, Inhabited

def sameSet (a b : List Key) : Bool := a.all (fun k => b.contains k) && b.all (fun k => a.contains k)

/-- ghost update of the obligations over one observed transition -/
def nextObls (o : Obs) (obls : List Obl) : List Obl :=
  let k := o.e.key
  -- any event about M (press or release) discharges
  let obls := obls.filter fun ob => ob.M != k
  match o.e with
  | Event.released _ => obls
  | Event.pressed _ =>
    if !o.accepted then obls
    else
      let obls := obls.map fun ob => if ob.t == k then ob else { ob with fresh := false }
      match o.fired with
      | some fm =>
        let obls := obls.filter fun ob => !(fm.absorbing.contains ob.M)
        obls ++ fm.absorbing.map fun M => ⟨M, k, fm, o.P', true⟩
      | none => obls

/-- clause (ii) at one press event: `M` is not down at the instant a non-modifier key is pressed,
unless a mapping in effect (after the step) outputs `M` -/
def noMAtPresses (M : Key) (V : List Key) (outputsM : Bool) : List Event → Bool
  | [] => true
  | Event.pressed x :: es =>
    (!isActionKey x || !V.contains M || outputsM) && noMAtPresses M (applyEv V (Event.pressed x)) outputsM es
  | Event.released x :: es => noMAtPresses M (applyEv V (Event.released x)) outputsM es

/-- the three clauses of C08 for one pending obligation at one accepted press -/
def c08i (o : Obs) (ob : Obl) : Bool :=
  match o.fired with
  | some fm => !fm.frm.contains ob.M
  | none => true

def c08ii (o : Obs) (ob : Obl) : Bool :=
  noMAtPresses ob.M o.V (o.s'.active.any fun m => m.to.contains ob.M) o.evs

def c08iii (o : Obs) (ob : Obl) : Bool := o.fired == some ob.m

/-- signature of former finding D6 (FIXED: `add_new_mapping` now runs `release_absorbed_keys` also when the firing
mapping is absorbing without being key-producing; the monitor no longer consults this signature, the definition is
kept as a record; nothing uses it any more) (`absorbing_trigger` is one global slot): the violating press is of the
LATEST absorbing trigger — which exempts EVERY absorbed key — and either the obligation was created by
a different trigger, or some other key that is still absorbed and held was absorbed by a different
firing than the obligation's -/
def sigD6 (o : Obs) (ob : Obl) : Bool :=
  o.s.absTrig == some o.e.key &&
  (ob.t != o.e.key ||
   (o.s.absorbed.filter fun M2 => M2 != o.e.key && o.s.inp.contains M2).any fun M2 => !ob.m.absorbing.contains M2)

/-- signature of known finding D7 (FIXED: `add_new_mapping` now tests `produces_action_key`; the monitor no
longer consults this signature, the definition is kept as a record; nothing uses it any more): the step fires a mapping whose
output ends in a modifier but contains a non-modifier key (before the fix it was treated as a
modifier-remapping and skipped `release_absorbed_keys`) -/
def sigD7 (o : Obs) : Bool :=
  match o.fired with
  | some fm => !isActionMapping fm && fm.to.any isActionKey
  | none => false

/-- H1: a mapping that is not key-producing (output empty or ending in a modifier) outputs modifiers only
(no longer a hypothesis of C08 since the fix of D7; still reported by the driver request `H12`) -/
def layoutH1 (L : Layout) : Bool := L.all fun m => isActionMapping m || m.to.all fun y => !isActionKey y

/-- H2: every mapping with a non-empty absorbing list is key-producing -/
def layoutH2 (L : Layout) : Bool := L.all fun m => m.absorbing.isEmpty || isActionMapping m

/-- C08 over one observed transition with the pending obligations; returns the violation tags.
Since the fix of D6 (`add_new_mapping` lets go of the keys absorbed under another trigger also when the firing
mapping is itself absorbing) C08 is a theorem of the model for EVERY layout (`C08_full`), so any violation is a new
one: the known-finding signature `sigD6` is no longer consulted (nor is `layoutH2`); the tags are the plain clause
names.  (Since the fix of D7 the D7 signature is not consulted either.) -/
def monC08 (o : Obs) (obls : List Obl) : List String :=
  match o.e with
  | Event.released _ => []
  | Event.pressed k =>
    if !o.accepted then []
    else
      (obls.filter fun ob => ob.M != k).flatMap fun ob =>
        if ob.t != k then
          (if c08i o ob then [] else ["C08:i"]) ++
          (if c08ii o ob then [] else ["C08:ii"])
        else if ob.fresh && sameSet o.P' ob.held then
          (if c08iii o ob then [] else ["C08:iii"])
        else []

/-- all step monitors; returns the ids of the violated ones -/
def stepMonitors (o : Obs) : List String :=
  (if monC01 o then [] else ["C01"]) ++
  (if monC02a o && monC02b o && monC02c o then [] else ["C02"]) ++
  (if monC03 o then [] else ["C03"]) ++
  (if monC04 o then [] else ["C04"]) ++
  (if monC05foreign o then [] else ["C05:foreign"]) ++
  (if monC05empty o then [] else ["C05:empty"]) ++
  (if monC05release o then [] else ["C05:release"]) ++
  (if monC05keep o then [] else ["C05:keep"]) ++
  (match monC02dTag o with | some t => [t] | none => []) ++
  (if monC07 o then [] else ["C07"]) ++
  (if monC09 o then [] else ["C09"]) ++
  (if monC19 o then [] else ["C19"])

/-- release-all batch: legal, and nothing is left held on the virtual keyboard -/
def monRelAll (V : List Key) (evs : List Event) (s' : State) : List String :=
  (if legal V evs then [] else ["C19"]) ++
  (if (foldEvs V evs).isEmpty && s'.inp.isEmpty && s'.pass.isEmpty && s'.mapped.isEmpty && s'.active.isEmpty
   then [] else ["C06"])

end TmVerif
