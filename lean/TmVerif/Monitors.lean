/-
Executable statements ("monitors") of the mapper properties, as Bool functions over ONE transition
together with the ghost history summary (P = keys physically held, V = keys held on the virtual
keyboard).  The property theorems in `Props/` state that these functions return `true` on every
transition of the model from every reachable state; the native driver evaluates the very same
functions on the IMPLEMENTATION's transitions (request `M`), which is the failing-input search.

Import-free (linked into the driver).
-/
import TmVerif.Model.Mapper

namespace TmVerif

/-- fold of one event into a held-set (used for both the physical and the virtual keyboard) -/
def applyEv (H : List Key) : Event → List Key
  | Event.pressed k => if H.contains k then H else H ++ [k]
  | Event.released k => H.filter (fun x => x != k)

def foldEvs (H : List Key) (evs : List Event) : List Key := evs.foldl applyEv H

/-- C19: a key is pressed only when it is up and released only when it is down -/
def legal : List Key → List Event → Bool
  | _, [] => true
  | V, Event.pressed k :: es => !V.contains k && legal (V ++ [k]) es
  | V, Event.released k :: es => V.contains k && legal (V.filter (fun x => x != k)) es

def Event.isRelease : Event → Bool
  | Event.released _ => true
  | Event.pressed _ => false

def Event.key : Event → Key
  | Event.released k => k
  | Event.pressed k => k

/-- A transition as observed: layout, ghost sets before, state before, input, outputs, state after. -/
structure Obs where
  L : Layout
  P : List Key
  V : List Key
  s : State
  e : Event
  evs : List Event
  rep : RRepeat
  s' : State

def Obs.P' (o : Obs) : List Key := applyEv o.P o.e
def Obs.V' (o : Obs) : List Key := foldEvs o.V o.evs

/-- the event is acted on (not a press of a key the mapper considers held / release of one it does not) -/
def Obs.accepted (o : Obs) : Bool :=
  match o.e with
  | Event.pressed k => !o.s.inp.contains k
  | Event.released k => o.s.inp.contains k

/-- The mapping fired by this step, observed from outside: an accepted press of `k` after which the
most recently activated mapping ends in `k`. -/
def Obs.fired (o : Obs) : Option Mapping :=
  match o.e with
  | Event.pressed k =>
    if o.s.inp.contains k then none
    else match o.s'.active.getLast? with
      | some m => if finalKey? m == some k then some m else none
      | none => none
  | Event.released _ => none

def monC19 (o : Obs) : Bool := legal o.V o.evs

def monC01 (o : Obs) : Bool := !o.P'.isEmpty || o.V'.isEmpty

/-- every trigger key of `m` is physically held -/
def satisfiedBy (P : List Key) (m : Mapping) : Bool := m.frm.all fun k => P.contains k

def monC02a (o : Obs) : Bool :=
  o.V'.all fun k => o.P'.contains k || o.L.any fun m => m.to.contains k && satisfiedBy o.P' m

/-- has a single-key mapping and occurs in no mapping's output -/
def hidden (L : Layout) (k : Key) : Bool :=
  L.any (fun m => m.frm == [k]) && !L.any (fun m => m.to.contains k)

def monC02b (o : Obs) : Bool :=
  o.V'.all (fun k => !hidden o.L k) &&
  o.evs.all fun ev => match ev with
    | Event.pressed k => !hidden o.L k
    | Event.released _ => true

def monC02c (o : Obs) : Bool :=
  match o.e with
  | Event.released _ => o.evs.all Event.isRelease
  | Event.pressed _ => true

/-- while a mapping is in effect its trigger keys are consumed -/
def monC02d (o : Obs) : Bool :=
  o.s'.active.all fun m => m.frm.all fun k =>
    !o.V'.contains k || o.s'.active.any fun m2 => m2.to.contains k

def Repeat.isNormal : Repeat → Bool
  | Repeat.normal => true
  | _ => false

def pressedIn (evs : List Event) (k : Key) : Bool := evs.contains (Event.pressed k)

def monC07 (o : Obs) : Bool :=
  (match o.fired with
   | some m =>
     if m.rep.isNormal then true
     else o.V'.all (fun k => !isActionKey k) &&
          m.to.all (fun k => if isActionKey k then pressedIn o.evs k else o.V'.contains k)
   | none => true)
  && monC02c o

def monC09 (o : Obs) : Bool :=
  if !o.accepted then o.evs.isEmpty && o.rep == RRepeat.noChange && o.s' == o.s
  else match o.e with
    | Event.released _ => o.rep == RRepeat.disabled
    | Event.pressed _ =>
      match o.fired with
      | some m =>
        (match m.rep with
         | Repeat.special keys d i => o.rep == RRepeat.repeating keys d i
         | _ => o.rep == RRepeat.disabled)
      | none => o.rep == RRepeat.disabled

/-- no mapping of the layout has an absorbing list -/
def noAbsLayout (L : Layout) : Bool := L.all fun m => m.absorbing.isEmpty

/-- C03: the mappings that qualify when `k` goes down: final trigger key `k`, and every trigger key
held once `k` is down (`P'` = physically held after the press) -/
def candidates (L : Layout) (P' : List Key) (k : Key) : List Mapping :=
  L.filter fun m => finalKey? m == some k && m.frm.all (fun t => P'.contains t)

/-- C03 (layouts without absorbing): a key going down fires exactly the last-listed qualifying
mapping, whose non-modifier output keys get a press event in this step and whose modifier output
keys are held afterwards (all of them held, with normal repeat); if none qualifies the key is passed
through as the last event of the step, unless a mapping in effect mentions it (then nothing). -/
def monC03 (o : Obs) : Bool :=
  if !noAbsLayout o.L then true else
  match o.e with
  | Event.released _ => true
  | Event.pressed k =>
    if o.P.contains k then true
    else match (candidates o.L o.P' k).getLast? with
      | some m =>
        o.fired == some m &&
        m.to.all (fun y => if isActionKey y then pressedIn o.evs y else o.V'.contains y) &&
        (!m.rep.isNormal || m.to.all (fun y => o.V'.contains y))
      | none =>
        if o.s.active.any (fun m => m.frm.contains k || m.to.contains k) then o.evs.isEmpty
        else o.evs.getLast? == some (Event.pressed k)

/-- all step monitors; returns the ids of the violated ones -/
def stepMonitors (o : Obs) : List String :=
  (if monC01 o then [] else ["C01"]) ++
  (if monC02a o && monC02b o && monC02c o then [] else ["C02"]) ++
  (if monC03 o then [] else ["C03"]) ++
  (if monC07 o then [] else ["C07"]) ++
  (if monC09 o then [] else ["C09"]) ++
  (if monC19 o then [] else ["C19"])

/-- release-all batch: legal, and nothing is left held on the virtual keyboard -/
def monRelAll (V : List Key) (evs : List Event) (s' : State) : List String :=
  (if legal V evs then [] else ["C19"]) ++
  (if (foldEvs V evs).isEmpty && s'.inp.isEmpty && s'.pass.isEmpty && s'.mapped.isEmpty && s'.active.isEmpty
   then [] else ["C06"])

end TmVerif
