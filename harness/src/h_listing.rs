// Suite "listing" (property C16): keyboard discovery and selection.
//
//  a. exhaustive over all Unicode scalar values: `char::is_whitespace` and the lower-casing claim
//     behind `name.to_lowercase().contains("keyboard")` against the Lean model;
//  b. the real `parse_mask_hex` against the model (`MASK`), directed + seeded random;
//  c. both real extractors (`extract_keyboards_…`, `extract_input_devices_…`) against the model
//     (`KBD`, `DEV`) on device lists assembled from templates and mutated;
//  d. the C16 statements evaluated on the IMPLEMENTATION's outputs (failing-input search):
//       (i)   agreement of the two copies, (ii) locality per entry, (iii) exclusion flags,
//       (iv)  the selection statement of C16_select on the composition
//             real extractor -> virtual filter -> resolve table -> real flag_excluded_* -> HashMap lookup.
//             The three glue steps in (iv) (`starts_with("/devices/virtual/input/")`, the canonical_set
//             HashMap with `insert`, `replace("//","/")`) are re-typed here from list_keyboards /
//             list_input_devices / filter_devices_verbose because those functions read /proc and /sys
//             directly and have no hook; extraction, exclusion, HashMap, str::replace and WildMatch are real.
//
//  e. the real `list_keyboards` / `list_input_devices` (which read /proc/bus/input/devices and /sys) against
//     the model's `listKeyboards` / `listInputDevices` (`LISTK`, `LISTD`), inside a private mount namespace
//     (unshare(CLONE_NEWNS), a file bind-mounted over /proc/bus/input/devices, a tmpfs over /sys).  Skipped, and
//     reported as skipped in STATS, where the sandbox does not allow that.
//
// The captured device list `GAMING_MOUSE_SETUP_1` in /repo/src/example_hardware.rs is `#[cfg(test)]`,
// so it is not a symbol of this (non-test) build; the very same file is read with `include_str!` and the
// raw string literal is cut out of it.

use crate::h_util::{Opts, Rng, json_escape};
use crate::h_lean::{Lean, Mismatch};
use crate::keyboard_listing::verif as kl;
use crate::keyboard_listing::{ExtractedKeyboard, ExtractedInputDevice};
use crate::remapping_loop::verif as rl;
use std::collections::{HashMap, HashSet};
use std::panic::{catch_unwind, AssertUnwindSafe};
use std::path::PathBuf;
use wildmatch::WildMatch;

const EXAMPLE_HARDWARE_RS: &str = include_str!("/repo/src/example_hardware.rs");

pub fn gaming_mouse_setup_1() -> &'static str {
  let start = EXAMPLE_HARDWARE_RS.find("r#\"").expect("raw string start") + 3;
  let end = EXAMPLE_HARDWARE_RS[start..].find("\"#").expect("raw string end") + start;
  &EXAMPLE_HARDWARE_RS[start..end]
}

const KIND_WS: u8 = 1;
const KIND_LOWER: u8 = 2;
const KIND_MASK: u8 = 3;
const KIND_KBD: u8 = 4;
const KIND_DEV: u8 = 5;
const KIND_HASKBD: u8 = 6;
const KIND_NAME: u8 = 7;
const KIND_REPL: u8 = 8;
const KIND_SEL: u8 = 9;
const KIND_LISTK: u8 = 10;
const KIND_LISTD: u8 = 11;

const VIRTUAL_PREFIX: &str = "/devices/virtual/input/";
const KEYBOARD_LETTERS: &str = "keyboard";

// ---------- encodings (see lean/TmVerif/Driver/ListingCmd.lean) ----------

pub fn enc(s: &str) -> String {
  if s.is_empty() { return "-".to_string(); }
  let mut out = String::with_capacity(s.len() * 3);
  let mut first = true;
  for c in s.chars() {
    if !first { out.push('.'); }
    first = false;
    out.push_str(&format!("{:x}", c as u32));
  }
  out
}

fn enc_texts(v: &[String]) -> String {
  if v.is_empty() { "~".to_string() } else { v.iter().map(|s| enc(s)).collect::<Vec<_>>().join(",") }
}

fn enc_pairs(v: &[(String, String)]) -> String {
  if v.is_empty() { "~".to_string() } else { v.iter().map(|(a, b)| format!("{}>{}", enc(a), enc(b))).collect::<Vec<_>>().join(",") }
}

fn show_kbds(v: &[(String, String)]) -> String {
  if v.is_empty() { "~".to_string() } else { v.iter().map(|(s, n)| format!("{}|{}", enc(s), enc(n))).collect::<Vec<_>>().join(";") }
}

fn show_devs(v: &[(String, String, bool)]) -> String {
  if v.is_empty() { "~".to_string() } else { v.iter().map(|(s, n, k)| format!("{}|{}|{}", enc(s), enc(n), if *k { 1 } else { 0 })).collect::<Vec<_>>().join(";") }
}

fn show_mask(m: &Option<Vec<i32>>) -> String {
  match m {
    None => "err".to_string(),
    Some(v) if v.is_empty() => "~".to_string(),
    Some(v) => v.iter().map(|b| b.to_string()).collect::<Vec<_>>().join(",")
  }
}

pub fn dec(tok: &str) -> String {
  if tok == "-" { return String::new(); }
  tok.split('.').map(|h| u32::from_str_radix(h, 16).ok().and_then(char::from_u32).unwrap_or('\u{fffd}')).collect()
}

// protocol reply -> readable text, by kind of request
fn readable(kind: u8, reply: &str) -> String {
  if reply == "bad-request" || reply == "<driver-closed>" { return reply.to_string(); }
  match kind {
    KIND_KBD | KIND_DEV | KIND_LISTK | KIND_LISTD => {
      if reply == "~" { return "[]".to_string(); }
      let items: Vec<String> = reply.split(';').map(|e| {
        let f: Vec<&str> = e.split('|').collect();
        let mut out: Vec<String> = Vec::new();
        for (i, x) in f.iter().enumerate() { if i < 2 { out.push(format!("{:?}", dec(x))); } else { out.push(format!("keyboard={}", x)); } }
        format!("({})", out.join(", "))
      }).collect();
      format!("[{}]", items.join(", "))
    },
    KIND_SEL => reply.split('#').map(|part| if part == "~" { "[]".to_string() } else { format!("{:?}", part.split(',').map(dec).collect::<Vec<_>>()) }).collect::<Vec<_>>().join(" # "),
    KIND_NAME | KIND_REPL => format!("{:?}", dec(reply)),
    _ => reply.to_string()
  }
}

// human-readable rendering for samples / findings
fn human_devs(v: &[(String, String, bool)]) -> Vec<String> {
  v.iter().map(|(s, n, k)| format!("{:?} {:?} keyboard={}", n, s, k)).collect()
}
fn human_kbds(v: &[(String, String)]) -> Vec<String> {
  v.iter().map(|(s, n)| format!("{:?} {:?}", n, s)).collect()
}

// ---------- findings ----------

#[derive(Clone)]
pub struct Finding {
  pub kind: String,   // "divergence" | "property" | "impl-panic"
  pub check: String,  // which comparison / statement
  pub text: String,
  pub request: String,
  pub implementation: String,
  pub model: String,
  pub extra: serde_json::Value
}

fn finding_json(f: &Finding) -> serde_json::Value {
  serde_json::json!({
    "suite": "listing", "kind": f.kind, "check": f.check, "text": f.text, "request": f.request,
    "implementation": f.implementation, "model": f.model, "extra": f.extra,
    "properties": if f.kind == "divergence" { vec![] } else { vec!["C16"] }
  })
}

#[derive(Default)]
struct Stats {
  cases: u64,
  unicode_scalars: u64,
  whitespace_chars: u64,
  lower_to_keyboard_letter: Vec<String>,
  lower_multi_char: u64,
  mask_cases: u64,
  mask_errors: u64,
  mask_ok_empty: u64,
  mask_ok_nonempty: u64,
  haskbd_cases: u64,
  haskbd_true: u64,
  name_cases: u64,
  texts: u64,
  entries_keyboard: u64,
  entries_not_keyboard: u64,
  kbd_copy_entries: u64,
  texts_merged: u64,
  texts_crlf: u64,
  texts_all_i_first: u64,
  texts_with_repeated_key_line: u64,
  key_lines: u64,
  key_line_mask_errors: u64,
  ev_line_mask_errors: u64,
  locality_checks: u64,
  agreement_checks: u64,
  exclusion_checks: u64,
  exclusion_flagged: u64,
  select_cases: u64,
  select_statement_instances: u64,
  select_statement_hyp_failed: u64,
  select_chosen_all: u64,
  select_chosen_named: u64,
  os_glue_status: String,
  os_glue_cases: u64,
  os_glue_io_error_cases: u64,
  os_glue_devices_listed: u64,
  os_glue_virtual_skipped: u64,
  os_glue_no_event_node: u64,
  divergences: u64,
  monitor_violations: u64,
  impl_panics: u64,
  nontrivial: HashSet<u64>,
  samples: Vec<String>
}

fn hash_str(s: &str) -> u64 {
  // FNV-1a, only used to count distinct texts
  let mut h: u64 = 0xcbf29ce484222325;
  for b in s.as_bytes() { h ^= *b as u64; h = h.wrapping_mul(0x100000001b3); }
  h
}

// ---------- real code behind catch_unwind ----------

fn real_kbd(text: &str) -> Result<Vec<(String, String)>, ()> {
  catch_unwind(AssertUnwindSafe(|| kl::extract_keyboards(text))).map_err(|_| ())
}
fn real_dev(text: &str) -> Result<Vec<(String, String, bool)>, ()> {
  catch_unwind(AssertUnwindSafe(|| kl::extract_input_devices(text))).map_err(|_| ())
}
fn real_mask(text: &str) -> Result<Option<Vec<i32>>, ()> {
  catch_unwind(AssertUnwindSafe(|| kl::parse_mask_hex(text))).map_err(|_| ())
}

// ---------- templates ----------

const MASK_AT_KEYBOARD: &str = "1100f02902000 8380307cf910f001 feffffdfffefffff fffffffffffffffe";
const MASK_USB_KEYBOARD: &str = "1000000000007 ff9f207ac14057ff febeffdfffefffff fffffffffffffffe";
const MASK_POWER: &str = "10000000000000 0";
const MASK_MOUSE_BUTTONS: &str = "ffff0000 0 0 0 0";

fn entry(bus: &str, name: Option<&str>, sysfs: Option<&str>, handlers: &str, ev: Option<&str>, key: Option<&str>, extra: &[&str]) -> Vec<String> {
  let mut l = Vec::new();
  l.push(format!("I: Bus={} Vendor=0001 Product=0001 Version=ab41", bus));
  if let Some(n) = name { l.push(format!("N: Name=\"{}\"", n)); }
  l.push("P: Phys=isa0060/serio0/input0".to_string());
  if let Some(s) = sysfs { l.push(format!("S: Sysfs={}", s)); }
  l.push("U: Uniq=".to_string());
  l.push(format!("H: Handlers={} ", handlers));
  l.push("B: PROP=0".to_string());
  if let Some(e) = ev { l.push(format!("B: EV={}", e)); }
  if let Some(k) = key { l.push(format!("B: KEY={}", k)); }
  for x in extra { l.push(x.to_string()); }
  l.push(String::new());
  l
}

// word list as the kernel prints a bitmap: %lx words, most significant first, leading zero words skipped
fn kernel_mask(bits: &[u32]) -> String {
  let max = bits.iter().cloned().max().unwrap_or(0);
  let nwords = (max / 64 + 1) as usize;
  let mut words = vec![0u64; nwords];
  for b in bits { words[(*b / 64) as usize] |= 1u64 << (*b % 64); }
  let mut out = Vec::new();
  for w in words.iter().rev() { out.push(format!("{:x}", w)); }
  out.join(" ")
}

const NORMAL_KEYS: [u32; 10] = [30, 48, 46, 57, 42, 54, 14, 28, 1, 119];

// exactly `total` set bits of which exactly `normal` are among the ten normal keys
fn boundary_mask(rng: &mut Rng, total: usize, normal: usize, scrolldown: bool, allow_bit63: bool) -> String {
  let mut bits: Vec<u32> = Vec::new();
  let mut pool: Vec<u32> = NORMAL_KEYS.to_vec();
  for _ in 0..normal.min(10) { let i = rng.below(pool.len()); bits.push(pool.remove(i)); }
  if scrolldown && bits.len() < total { bits.push(178); }
  let mut guard = 0;
  while bits.len() < total && guard < 10000 {
    guard += 1;
    let b = rng.below(256) as u32;
    if NORMAL_KEYS.contains(&b) || b == 178 || bits.contains(&b) { continue; }
    if b % 64 == 63 && !allow_bit63 { continue; }
    bits.push(b);
  }
  kernel_mask(&bits)
}

pub fn captured_entries() -> Vec<Vec<String>> {
  let mut res: Vec<Vec<String>> = Vec::new();
  let mut cur: Vec<String> = Vec::new();
  for line in gaming_mouse_setup_1().split('\n') {
    if line.starts_with("I:") && !cur.is_empty() { res.push(std::mem::replace(&mut cur, Vec::new())); }
    cur.push(line.to_string());
  }
  if !cur.is_empty() { res.push(cur); }
  res
}

fn synthetic_templates() -> Vec<(&'static str, Vec<String>)> {
  vec![
    ("at-keyboard", entry("0011", Some("AT Translated Set 2 keyboard"), Some("/devices/platform/i8042/serio0/input/input2"), "sysrq kbd event2 leds", Some("120013"), Some(MASK_AT_KEYBOARD), &["B: MSC=10", "B: LED=7"])),
    ("usb-keyboard", entry("0003", Some("Logitech USB Keyboard"), Some("/devices/pci0000:00/0000:00:14.0/usb1/1-4/1-4:1.0/0003:046D:C31C.0003/input/input7"), "sysrq kbd event5 leds", Some("120013"), Some(MASK_AT_KEYBOARD), &["B: MSC=10", "B: LED=1f"])),
    ("usb-keyboard-noname-hint", entry("0003", Some("SONiX USB DEVICE"), Some("/devices/pci0000:00/0000:00:14.0/usb1/1-5/1-5:1.0/0003:0C45:7603.0008/input/input31"), "sysrq kbd event6 leds", Some("120013"), Some(MASK_USB_KEYBOARD), &["B: MSC=10", "B: LED=7"])),
    ("gaming-mouse-kbd-map", entry("0003", Some("GXT 4155 Gaming Mouse"), Some("/devices/pci0000:00/0000:00:14.0/usb1/1-1/1-1.3/1-1.3:1.1/0003:145F:01BC.0006/input/input13"), "sysrq kbd event10", Some("100013"), Some(MASK_USB_KEYBOARD), &["B: MSC=10"])),
    ("gaming-mouse-buttons", entry("0003", Some("GXT 4155 Gaming Mouse"), Some("/devices/pci0000:00/0000:00:14.0/usb1/1-1/1-1.3/1-1.3:1.0/0003:145F:01BC.0005/input/input12"), "mouse4 event9", Some("17"), Some(MASK_MOUSE_BUTTONS), &["B: REL=1943", "B: MSC=10"])),
    ("power-button", entry("0019", Some("Power Button"), Some("/devices/LNXSYSTM:00/LNXSYBUS:00/PNP0C0C:00/input/input1"), "kbd event1", Some("3"), Some(MASK_POWER), &[])),
    ("lid-switch", entry("0019", Some("Lid Switch"), Some("/devices/LNXSYSTM:00/LNXSYBUS:00/PNP0C0D:00/input/input0"), "event0", Some("21"), None, &["B: SW=1"])),
    ("virtual-keyboard", entry("0006", Some("py-evdev-uinput Keyboard"), Some("/devices/virtual/input/input40"), "sysrq kbd event25 leds", Some("120013"), Some(MASK_AT_KEYBOARD), &["B: MSC=10", "B: LED=7"])),
    ("totalmapper-output", entry("0003", Some("totalmapper"), Some("/devices/virtual/input/input41"), "sysrq kbd event26", Some("3"), Some("7fffffffffffffff ffffffffffffffff ffffffffffffffff ffffffffffffffff ffffffffffffffff ffffffffffffffff ffffffffffffffff ffffffffffffffff ffffffffffffffff ffffffffffffffff ffffffffffffffff fffffffffffffffe"), &[])),
    ("cros-ec", entry("0019", Some("cros_ec"), Some("/devices/platform/GOOG0004:00/input/input3"), "sysrq kbd event3", Some("100013"), Some(MASK_AT_KEYBOARD), &["B: MSC=10"])),
    ("bluetooth-uhid-keyboard", entry("0005", Some("Keychron K2"), Some("/devices/virtual/misc/uhid/0005:05AC:024F.0009/input/input43"), "sysrq kbd event28 leds", Some("120013"), Some(MASK_AT_KEYBOARD), &["B: MSC=10", "B: LED=1f"])),
    ("almost-virtual", entry("0003", Some("Bluetooth Keyboard"), Some("/devices/virtual/inputx/input42"), "sysrq kbd event27 leds", Some("120013"), Some(MASK_AT_KEYBOARD), &[])),
  ]
}

const NAME_BODIES: &[&str] = &[
  "AT Translated Set 2 keyboard", "Logitech USB Keyboard", "USB KEYBOARD", "\u{212A}EYBOARD", "\u{212A}eyboard Mouse",
  "GXT 4155 Gaming Mouse", "gaming mouse", "Mouse Keyboard", "MOUSE", "mOUSE", "Mous", "Mouse", "cros_ec", "cros_ec ",
  " cros_ec", "Cros_ec", "cros_ec\"", "", "a\"b", "\"", "\"\"", "q\"\"", "\u{130}KEYBOARD", "KEYBOAR\u{3a3}", "\u{3a3}KEYBOARD",
  "key board", "\u{ff4b}\u{ff45}\u{ff59}\u{ff42}\u{ff4f}\u{ff41}\u{ff52}\u{ff44}", "KeyBoArD", "\u{1c5}", "stra\u{df}e keyboard",
  "KEY\u{130}BOARD", "keykeyboard", "keyboarkeyboard", "KEYBOAR", "Tastatur \u{2328}", "\u{1f5ae} Keyboard", "Ke\u{301}yboard",
  "K\u{45}\u{59}BOARD\u{212A}", "keyboard\u{a0}", "x\u{2003}", "tab\there", "N: Name=\"inner\"", "B: KEY=ffff",
  "totalmapper", "Some Mouse", "Some mouse with Keyboard"
];

const NAME_TAILS: &[&str] = &[
  "\"", "\"", "\"", "\" ", "\"  \t", "\"\t", "\"\u{a0}", "\"\u{3000}", "\" \"", "", "\"\"", "\"\r", "\"\u{85}", "\"\u{200b}",
  "\"\u{feff}", " ", "\"\u{2028}", "\"\u{1680}\u{2000}\u{200a}\u{202f}\u{205f}", "\"\u{b}\u{c}", "\"\u{1c}", "\"\u{180e}", "\" x"
];

const EV_VARIANTS: &[&str] = &["120013", "100013", "3", "17", "1f", "20000", "20001 0", "", " 120013", "120013 ", "12 0013", "120013  0", "zz", "+120013", "-1", "0x120013", "120013\t", "12001F", "FFFFFFFFFFFFFFFF", "1ffffffffffffffff", "00000000000000000000020000"];

const GARBAGE_LINES: &[&str] = &["", " ", "I:", "I", "i: Bus=0", " I: Bus=0", "I :", "S: Sysfs", "S: Sysfs=", "S:  Sysfs=/x", "N: Name=", "N: Name=\"", "N: Name=x", "B: EV", "B: EV=", "B: KEY", "B: KEY=", "B:KEY=ffff", "B: KEY =ffff", "b: key=ffff", "\u{feff}I: Bus=0", "B: KEY=\u{ff46}\u{ff46}", "B: KEY=ffffffffffffffffffff", "garbage", "H: Handlers=kbd", "B: LED=7"];

// `dirty` = this token may carry one of the defects that make from_str_radix fail (or nearly fail)
fn random_hex_token(rng: &mut Rng, dirty: bool) -> String {
  let len = if dirty { match rng.below(6) { 0 => 0, 1 => 16, 2 => 17, 3 => rng.range(18, 24), _ => rng.range(1, 16) } } else { match rng.below(8) { 0 => 16, 1 => 1, _ => rng.range(1, 16) } };
  let mut s = String::new();
  if rng.chance(1, 25) { s.push('+'); }
  let upper = rng.chance(1, 6);
  let zeros = dirty && rng.chance(1, 3);
  for i in 0..len {
    let d = if zeros && i < len.saturating_sub(3) { 0 } else { rng.below(16) as u32 };
    let c = std::char::from_digit(d, 16).unwrap();
    s.push(if upper || rng.chance(1, 30) { c.to_ascii_uppercase() } else { c });
  }
  if dirty && rng.chance(1, 3) {
    let junk = ['g', '-', '+', 'x', '\t', '\u{a0}', '\u{ff11}', '_', '.', '\r'];
    let j = *rng.pick(&junk);
    let pos = rng.below(s.chars().count() + 1);
    let mut t: Vec<char> = s.chars().collect();
    t.insert(pos, j);
    s = t.into_iter().collect();
  }
  s
}

fn random_mask(rng: &mut Rng) -> String {
  let n = match rng.below(8) { 0 => 1, 1 => 2, _ => rng.range(1, 13) };
  // two thirds of the masks are clean (parse succeeds), the rest have ONE defect somewhere
  let defect = if rng.chance(1, 3) { rng.below(n + 3) } else { usize::MAX };
  let mut s = String::new();
  if defect == n { s.push(' '); }
  for i in 0..n {
    if i > 0 { s.push(' '); if defect == n + 1 && rng.chance(1, 2) { s.push(' '); } }
    s.push_str(&random_hex_token(rng, defect == i));
  }
  if defect == n + 2 { s.push(' '); }
  s
}

fn random_key_mask(rng: &mut Rng) -> String {
  match rng.below(12) {
    0 => MASK_AT_KEYBOARD.to_string(),
    1 => MASK_USB_KEYBOARD.to_string(),
    2 => MASK_AT_KEYBOARD.to_uppercase(),
    3 => { let t = *rng.pick(&[19usize, 20, 21]); let n = *rng.pick(&[2usize, 3, 3, 4]); let sd = rng.chance(1, 3); let b63 = rng.chance(1, 4); boundary_mask(rng, t, n, sd, b63) },
    4 => { let t = *rng.pick(&[19usize, 20, 21, 40]); let n = *rng.pick(&[2usize, 3]); let sd = rng.chance(1, 2); boundary_mask(rng, t, n, sd, false).to_uppercase() },
    5 => random_mask(rng),
    6 => format!("{} ", MASK_AT_KEYBOARD),
    7 => MASK_AT_KEYBOARD.replace(" ", "  "),
    8 => { let t = rng.range(15, 30); let n = rng.range(0, 6); let sd = rng.chance(1, 2); boundary_mask(rng, t, n, sd, true) },
    9 => format!("{} 1ffffffffffffffff", MASK_AT_KEYBOARD),
    10 => { let mut bits: Vec<u32> = NORMAL_KEYS.to_vec(); bits.push(178); for b in 2..14 { bits.push(b); } kernel_mask(&bits) },
    _ => { let t = rng.range(20, 60); let n = rng.range(3, 10); let sd = rng.chance(1, 2); boundary_mask(rng, t, n, sd, false) }
  }
}

fn first_index(lines: &[String], prefix: &str) -> Option<usize> { lines.iter().position(|l| l.starts_with(prefix)) }

fn set_line(lines: &mut Vec<String>, prefix: &str, new_line: String) {
  match first_index(lines, prefix) {
    Some(i) => lines[i] = new_line,
    None => { let at = if lines.is_empty() { 0 } else { 1 }; lines.insert(at, new_line); }
  }
}

// One mutation of one entry.  Returns a tag for the distribution.
fn mutate(rng: &mut Rng, lines: &mut Vec<String>) -> &'static str {
  match rng.below(16) {
    0 => { if lines.len() > 1 { let i = rng.range(1, lines.len() - 1); lines.remove(i); } "drop-field" },
    1 => { if !lines.is_empty() { let i = rng.below(lines.len()); let l = lines[i].clone(); let j = rng.below(lines.len() + 1); lines.insert(j, l); } "dup-field" },
    2 => { if lines.len() > 2 { let i = rng.range(1, lines.len() - 1); let j = rng.range(1, lines.len() - 1); lines.swap(i, j); } "reorder" },
    3 => { if !lines.is_empty() && lines[0].starts_with("I:") { lines.remove(0); } "drop-I" },
    4 => { let m = random_key_mask(rng); set_line(lines, "B: KEY=", format!("B: KEY={}", m)); "key-mask" },
    5 => { let body = *rng.pick(NAME_BODIES); let tail = *rng.pick(NAME_TAILS); set_line(lines, "N: Name=", format!("N: Name=\"{}{}", body, tail)); "name" },
    6 => { let ev = *rng.pick(EV_VARIANTS); set_line(lines, "B: EV=", format!("B: EV={}", ev)); "ev" },
    7 => { let g = *rng.pick(GARBAGE_LINES); let j = rng.below(lines.len() + 1); lines.insert(j, g.to_string()); "garbage-line" },
    8 => { let m = random_key_mask(rng); let j = rng.below(lines.len() + 1); lines.insert(j, format!("B: KEY={}", m)); "extra-key-line" },
    9 => { let s = *rng.pick(&["/devices/virtual/input/input77", "/devices/virtual/input/", "/devices/virtual/input", "/devices/virtual/inputx/input3", "/devices/virtual/misc/uhid/0005:046D:B342.0003/input/input25", " /devices/virtual/input/input5", "/devices/platform/i8042/serio0/input/input2", "", "/devices//platform/x", "/devices/\u{e9}/input9"]); set_line(lines, "S: Sysfs=", format!("S: Sysfs={}", s)); "sysfs" },
    10 => { if let Some(i) = first_index(lines, "N: Name=") { lines.remove(i); } "drop-name" },
    11 => { if let Some(i) = first_index(lines, "S: Sysfs=") { lines.remove(i); } "drop-sysfs" },
    12 => { if let Some(i) = first_index(lines, "B: EV=") { lines.remove(i); } "drop-ev" },
    13 => { if let Some(i) = first_index(lines, "B: KEY=") { let up = lines[i][7..].to_uppercase(); lines[i] = format!("B: KEY={}", up); } "key-upper" },
    14 => { if lines.len() > 1 { let mut rest: Vec<String> = lines.drain(1..).collect(); for i in (1..rest.len()).rev() { let j = rng.below(i + 1); rest.swap(i, j); } lines.extend(rest); } "shuffle-fields" },
    _ => { let body = *rng.pick(NAME_BODIES); set_line(lines, "N: Name=", format!("N: Name=\"{}\"", body)); let m = random_key_mask(rng); set_line(lines, "B: KEY=", format!("B: KEY={}", m)); "name+mask" }
  }
}

struct GenText {
  entries: Vec<Vec<String>>,  // lines per entry (already with "\r" appended if crlf)
  text: String,
  merged: bool,               // some entry does not start with an I: line
  crlf: bool,
  source: String
}

fn assemble(entries: Vec<Vec<String>>, crlf: bool, trailing_newline: bool, source: String) -> GenText {
  let entries: Vec<Vec<String>> = entries.into_iter().filter(|e| !e.is_empty())
    .map(|e| if crlf { e.into_iter().map(|l| format!("{}\r", l)).collect() } else { e }).collect();
  let mut all: Vec<&str> = Vec::new();
  for e in &entries { for l in e { all.push(l.as_str()); } }
  let mut text = all.join("\n");
  let mut entries = entries;
  if trailing_newline && !entries.is_empty() {
    // a final '\n' is one more (empty) line of the last entry
    text.push('\n');
    entries.last_mut().unwrap().push(String::new());
  }
  let merged = entries.iter().any(|e| !e[0].starts_with("I:"));
  GenText { entries, text, merged, crlf, source }
}

// ---------- the suite ----------

struct Ctx {
  lean: Lean,
  stats: Stats,
  findings: Vec<Finding>,
  pending: Vec<(String, serde_json::Value)>,   // per in-flight request: text + extra
  max_findings: usize
}

impl Ctx {
  fn push_finding(&mut self, f: Finding) {
    match f.kind.as_str() { "divergence" => self.stats.divergences += 1, "property" => self.stats.monitor_violations += 1, _ => self.stats.impl_panics += 1 }
    // at most 4 replays per kind of check so that one systematic disagreement does not hide the others
    let same = self.findings.iter().filter(|x| x.check == f.check).count();
    if self.findings.len() < self.max_findings && same < 4 { self.findings.push(f); }
  }

  fn expect(&mut self, kind: u8, text: &str, extra: serde_json::Value, req: String, expected: String) {
    let tag = self.pending.len() as u64;
    self.pending.push((text.to_string(), extra));
    self.lean.expect(kind, tag, req, expected);
    if self.pending.len() >= 4000 { self.sync(); }
  }

  fn sync(&mut self) {
    let (n, ms) = self.lean.sync();
    let kept = ms.len() as u64;
    for m in ms {
      let (text, extra) = self.pending.get(m.tag as usize).cloned().unwrap_or_default();
      let check = match m.kind { KIND_WS => "is_whitespace", KIND_LOWER => "to_lowercase", KIND_MASK => "parse_mask_hex", KIND_KBD => "extract_keyboards", KIND_DEV => "extract_input_devices", KIND_HASKBD => "has_keyboard_in_name", KIND_NAME => "name-parsing", KIND_REPL => "replace", KIND_SEL => "selection-glue", KIND_LISTK => "list_keyboards", KIND_LISTD => "list_input_devices", _ => "?" };
      let extra = serde_json::json!({"context": extra, "implementation_raw": m.expected, "model_raw": m.got});
      self.push_finding(Finding { kind: "divergence".into(), check: check.into(), text, request: m.req, implementation: readable(m.kind, &m.expected), model: readable(m.kind, &m.got), extra });
    }
    if n > kept { self.stats.divergences += n - kept; }
    self.pending.clear();
  }
}

fn part_a_unicode(cx: &mut Ctx) {
  for cp in 0u32..=0x10FFFF {
    let c = match char::from_u32(cp) { Some(c) => c, None => continue };
    cx.stats.unicode_scalars += 1;
    let ws = c.is_whitespace();
    if ws { cx.stats.whitespace_chars += 1; }
    cx.expect(KIND_WS, "", serde_json::json!({"cp": cp}), format!("LSWS {:x}", cp), (if ws { "1" } else { "0" }).to_string());
    // lower-casing claim: either to_lowercase() is exactly one char and (if that char is a letter of
    // "keyboard") the model yields the same char, or no char of to_lowercase() is such a letter and
    // the model's image is not one either.
    let lo: Vec<char> = c.to_lowercase().collect();
    let expected = if lo.len() == 1 {
      if KEYBOARD_LETTERS.contains(lo[0]) { format!("{:x}", lo[0] as u32) } else { "-".to_string() }
    }
    else {
      cx.stats.lower_multi_char += 1;
      if lo.iter().any(|x| KEYBOARD_LETTERS.contains(*x)) { "multi-char-lowercase-with-keyboard-letter".to_string() } else { "-".to_string() }
    };
    if expected != "-" && !c.is_ascii() { cx.stats.lower_to_keyboard_letter.push(format!("U+{:04X}->{}", cp, expected)); }
    cx.expect(KIND_LOWER, "", serde_json::json!({"cp": cp}), format!("LOWERK {:x}", cp), expected);
    // str::to_lowercase is char::to_lowercase per character except for the final-sigma rule
    let s = format!("k{}d", c);
    let per_char: String = s.chars().flat_map(|x| x.to_lowercase()).collect();
    if s.to_lowercase() != per_char {
      cx.push_finding(Finding { kind: "divergence".into(), check: "str-vs-char-lowercase".into(), text: s.clone(), request: "-".into(), implementation: s.to_lowercase(), model: per_char, extra: serde_json::json!({"cp": cp}) });
    }
  }
  cx.sync();
}

fn haskbd_case(cx: &mut Ctx, s: &str) {
  let real = s.to_lowercase().contains("keyboard");
  cx.stats.haskbd_cases += 1;
  if real { cx.stats.haskbd_true += 1; }
  cx.expect(KIND_HASKBD, s, serde_json::Value::Null, format!("LSHASKBD {}", enc(s)), (if real { "1" } else { "0" }).to_string());
}

fn name_case(cx: &mut Ctx, rest: &str) {
  // lines 80-84 / 190-194 of keyboard_listing.rs on `line[9..]`, observed through the real extractor
  let text = format!("I:\nS: Sysfs=/s\nN: Name=\"{}\nB: KEY=0", rest);
  if rest.contains('\n') { return; }
  cx.stats.name_cases += 1;
  match real_dev(&text) {
    Ok(v) => {
      let got = v.get(0).map(|d| d.1.clone()).unwrap_or_default();
      cx.expect(KIND_NAME, &text, serde_json::Value::Null, format!("LSNAME {}", enc(rest)), enc(&got));
    },
    Err(_) => cx.push_finding(Finding { kind: "impl-panic".into(), check: "name-parsing".into(), text, request: "-".into(), implementation: "panic".into(), model: "?".into(), extra: serde_json::Value::Null })
  }
}

fn part_a2_names(cx: &mut Ctx, rng: &mut Rng, n_random: u64) {
  for b in NAME_BODIES { haskbd_case(cx, b); for t in NAME_TAILS { name_case(cx, &format!("{}{}", b, t)); } }
  let alphabet: Vec<char> = "kKeEyYbBoOaArRdD \u{212A}\u{3a3}\u{3c3}\u{3c2}\u{130}\u{131}\u{df}\u{1c5}\u{ff2b}xM\"\t\u{a0}\u{3000}\u{200b}".chars().collect();
  for _ in 0..n_random {
    let mut s = String::new();
    let len = rng.range(0, 14);
    for _ in 0..len {
      if rng.chance(1, 5) { s.push_str(*rng.pick(&["keyboard", "KEYBOARD", "\u{212A}EYBOARD", "keyboar", "Mouse", "KEYBOAR\u{3a3}", "\u{130}"])); }
      else { s.push(*rng.pick(&alphabet)); }
    }
    haskbd_case(cx, &s);
    name_case(cx, &s);
  }
  cx.sync();
}

fn mask_case(cx: &mut Ctx, s: &str) {
  cx.stats.mask_cases += 1;
  match real_mask(s) {
    Ok(m) => {
      match &m { None => cx.stats.mask_errors += 1, Some(v) if v.is_empty() => cx.stats.mask_ok_empty += 1, _ => cx.stats.mask_ok_nonempty += 1 }
      cx.expect(KIND_MASK, s, serde_json::Value::Null, format!("MASK {}", enc(s)), show_mask(&m));
    },
    Err(_) => cx.push_finding(Finding { kind: "impl-panic".into(), check: "parse_mask_hex".into(), text: s.to_string(), request: format!("MASK {}", enc(s)), implementation: "panic".into(), model: "?".into(), extra: serde_json::Value::Null })
  }
}

fn part_b_masks(cx: &mut Ctx, rng: &mut Rng, n_random: u64) {
  let many_words = { let mut v = Vec::new(); for i in 0..40 { v.push(format!("{:x}", 0x8000000000000001u64.rotate_left(i))); } v.join(" ") };
  let directed: Vec<String> = vec![
    "", "0", "1", "+1", "+", "-", "-1", "++1", "+-1", "1+", "g", "G", "0x1", " ", "  ", "1 ", " 1", "1  1", "1 1", "1 1 1",
    "ffffffffffffffff", "FFFFFFFFFFFFFFFF", "+ffffffffffffffff", "10000000000000000", "1ffffffffffffffff", "0ffffffffffffffff",
    "00000000000000000000000000000001", "8000000000000000", "7fffffffffffffff", "4000000000000000", "8000000000000000 8000000000000000",
    "fffffffffffffffe", "120013", "12001F", "aBcDeF", "abcdefg", "1\t1", "1\u{a0}1", "\u{ff11}", "1\r", "1\n1", "ffffffffffffffff0",
    "123456789abcdef0", "0123456789abcdef0", "+0", "+00000000000000000", "0 0 0 0", "0 0 0 0 ", "1 0 0 0 g", "g 0 0 0 1", "1 +1 1", "1 + 1",
    MASK_AT_KEYBOARD, MASK_USB_KEYBOARD, MASK_POWER, MASK_MOUSE_BUTTONS
  ].into_iter().map(|s| s.to_string()).chain(std::iter::once(many_words)).collect();
  for s in &directed { mask_case(cx, s); }
  for _ in 0..n_random { let m = random_mask(rng); mask_case(cx, &m); }
  for _ in 0..(n_random / 4) { let m = random_key_mask(rng); mask_case(cx, &m); }
  cx.sync();
}

fn check_text(cx: &mut Ctx, rng: &mut Rng, g: &GenText, patterns_per_text: usize) {
  let text = &g.text;
  cx.stats.texts += 1;
  cx.stats.cases += 1;
  if g.merged { cx.stats.texts_merged += 1; } else { cx.stats.texts_all_i_first += 1; }
  if g.crlf { cx.stats.texts_crlf += 1; }
  let extra = serde_json::json!({"source": g.source});
  let (kbd, dev) = match (real_kbd(text), real_dev(text)) {
    (Ok(k), Ok(d)) => (k, d),
    _ => {
      cx.push_finding(Finding { kind: "impl-panic".into(), check: "extract".into(), text: text.clone(), request: "-".into(), implementation: "panic".into(), model: "?".into(), extra });
      return;
    }
  };
  // c. model vs implementation, both copies
  cx.expect(KIND_KBD, text, extra.clone(), format!("KBD {}", enc(text)), show_kbds(&kbd));
  cx.expect(KIND_DEV, text, extra.clone(), format!("DEV {}", enc(text)), show_devs(&dev));

  // distribution
  let n_kbd = dev.iter().filter(|d| d.2).count() as u64;
  let n_not = dev.len() as u64 - n_kbd;
  cx.stats.entries_keyboard += n_kbd;
  cx.stats.entries_not_keyboard += n_not;
  cx.stats.kbd_copy_entries += kbd.len() as u64;
  if n_kbd > 0 && n_not > 0 { cx.stats.nontrivial.insert(hash_str(text)); }
  let mut key_lines_in_entry = 0;
  let mut repeated = false;
  for line in text.split('\n') {
    if line.starts_with("I:") { key_lines_in_entry = 0; }
    else if line.starts_with("S: Sysfs=") || line.starts_with("N: Name=\"") {}
    else if line.starts_with("B: EV=") { if let Ok(None) = real_mask(&line[6..]) { cx.stats.ev_line_mask_errors += 1; } }
    else if line.starts_with("B: KEY=") {
      cx.stats.key_lines += 1;
      key_lines_in_entry += 1;
      if key_lines_in_entry > 1 { repeated = true; }
      if let Ok(None) = real_mask(&line[7..]) { cx.stats.key_line_mask_errors += 1; }
    }
  }
  if repeated { cx.stats.texts_with_repeated_key_line += 1; }

  // d(i). the two copies agree: keyboards == devices filtered by the flag
  cx.stats.agreement_checks += 1;
  let filtered: Vec<(String, String)> = dev.iter().filter(|d| d.2).map(|d| (d.0.clone(), d.1.clone())).collect();
  if filtered != kbd {
    cx.push_finding(Finding { kind: "property".into(), check: "C16_agree".into(), text: text.clone(), request: "-".into(),
      implementation: format!("extract_keyboards={:?} extract_input_devices(filtered)={:?}", human_kbds(&kbd), human_kbds(&filtered)), model: "equal (theorem C16_agree)".into(), extra: extra.clone() });
  }

  // d(ii). locality: every entry starts with an I: line => whole == concatenation of the parts
  if !g.merged {
    cx.stats.locality_checks += 1;
    let mut cat_dev: Vec<(String, String, bool)> = Vec::new();
    let mut cat_kbd: Vec<(String, String)> = Vec::new();
    let mut ok = true;
    for e in &g.entries {
      let t = e.join("\n");
      match (real_kbd(&t), real_dev(&t)) { (Ok(k), Ok(d)) => { cat_kbd.extend(k); cat_dev.extend(d); }, _ => { ok = false; } }
    }
    if ok && (cat_dev != dev || cat_kbd != kbd) {
      cx.push_finding(Finding { kind: "property".into(), check: "C16_local".into(), text: text.clone(), request: "-".into(),
        implementation: format!("whole={:?} per-entry={:?}", human_devs(&dev), human_devs(&cat_dev)), model: "equal (theorem C16_local)".into(),
        extra: serde_json::json!({"source": g.source, "entries": g.entries}) });
    }
  }

  // d(iii). exclusion flags
  let mut names: Vec<String> = dev.iter().map(|d| d.1.clone()).collect();
  names.sort(); names.dedup();
  let mut patterns: Vec<String> = Vec::new();
  for _ in 0..patterns_per_text { patterns.push(random_pattern(rng, &names)); }
  if !dev.is_empty() {
    let pats: Vec<&str> = patterns.iter().map(|s| s.as_str()).collect();
    let kin: Vec<ExtractedKeyboard> = dev.iter().map(|d| ExtractedKeyboard { dev_path: PathBuf::from(&d.0), name: d.1.clone() }).collect();
    let din: Vec<ExtractedInputDevice> = dev.iter().map(|d| ExtractedInputDevice { dev_path: PathBuf::from(&d.0), name: d.1.clone(), is_keyboard: d.2 }).collect();
    let r = catch_unwind(AssertUnwindSafe(|| (rl::flag_excluded_keyboards(kin, &pats), rl::flag_excluded_devices(din, &pats))));
    match r {
      Err(_) => cx.push_finding(Finding { kind: "impl-panic".into(), check: "flag_excluded".into(), text: text.clone(), request: "-".into(), implementation: "panic".into(), model: "?".into(), extra: serde_json::json!({"patterns": patterns}) }),
      Ok((fk, fd)) => {
        for i in 0..dev.len() {
          cx.stats.exclusion_checks += 1;
          let want = pats.iter().any(|p| WildMatch::new(p).matches(&dev[i].1));
          if want { cx.stats.exclusion_flagged += 1; }
          let same_order = fk.len() == dev.len() && fd.len() == dev.len() && fk[i].0.name == dev[i].1 && fd[i].0.name == dev[i].1
            && fk[i].0.dev_path == PathBuf::from(&dev[i].0) && fd[i].0.dev_path == PathBuf::from(&dev[i].0) && fd[i].0.is_keyboard == dev[i].2;
          if !same_order || fk[i].1 != want || fd[i].1 != want {
            cx.push_finding(Finding { kind: "property".into(), check: "C16_exclusion".into(), text: text.clone(), request: "-".into(),
              implementation: format!("name={:?} flag_excluded={} flag_excluded_input_devices={} order_kept={}", dev[i].1, fk.get(i).map(|x| x.1).unwrap_or(false), fd.get(i).map(|x| x.1).unwrap_or(false), same_order),
              model: format!("any WildMatch matches = {}", want), extra: serde_json::json!({"patterns": patterns}) });
            break;
          }
        }
      }
    }
  }

  // d(iv). the selection statement on the composed implementation + the model's glue (SEL)
  select_case(cx, rng, g, &kbd, &dev, &patterns);

  if cx.stats.samples.len() < 6 && n_kbd > 0 && n_not > 0 && text.len() < 1500 && (cx.stats.texts % 7 == 3) {
    cx.stats.samples.push(format!("[{}] text={} => devices={:?}", g.source, json_escape(text), human_devs(&dev)));
  }
}

fn random_pattern(rng: &mut Rng, names: &[String]) -> String {
  if names.is_empty() || rng.chance(1, 8) {
    return (*rng.pick(&["*", "", "?", "*Mouse*", "*mouse*", "*eyboard", "AT*", "*?", "??*", "totalmapper", "cros_ec", "*\u{212A}*"])).to_string();
  }
  let name: Vec<char> = rng.pick(names).chars().collect();
  let mut p: Vec<char> = Vec::new();
  match rng.below(5) {
    0 => { p = name.clone(); },
    1 => { let k = rng.below(name.len() + 1); p.extend(&name[..k]); p.push('*'); },
    2 => { let k = rng.below(name.len() + 1); p.push('*'); p.extend(&name[k..]); },
    3 => { p = name.clone(); if !p.is_empty() { let i = rng.below(p.len()); p[i] = '?'; } },
    _ => {
      let a = rng.below(name.len() + 1); let b = rng.range(a, name.len());
      p.push('*'); p.extend(&name[a..b]); p.push('*');
      if rng.chance(1, 3) && !p.is_empty() { let i = rng.below(p.len()); p[i] = '?'; }
    }
  }
  if rng.chance(1, 2) && !p.is_empty() { let i = rng.below(p.len()); if rng.chance(1, 2) { p.remove(i); } else { p[i] = 'z'; } }
  p.into_iter().collect()
}

// The glue of list_keyboards + do_remapping_loop_all_devices on given tables.
fn impl_select_all(kbd: &[(String, String)], resolve: &HashMap<String, String>, excludes: &[&str]) -> Vec<String> {
  let mut res: Vec<ExtractedKeyboard> = Vec::new();
  for dev in kbd {
    let p = &dev.0;
    if !p.starts_with(VIRTUAL_PREFIX) {
      match resolve.get(p) { None => (), Some(dev_path) => res.push(ExtractedKeyboard { dev_path: PathBuf::from(dev_path), name: dev.1.clone() }) }
    }
  }
  rl::flag_excluded_keyboards(res, excludes).into_iter().filter(|e| !e.1).map(|e| e.0.dev_path.to_str().unwrap().to_string()).collect()
}

// The glue of list_input_devices + filter_devices_verbose on given tables.
fn impl_select_named(dev: &[(String, String, bool)], resolve: &HashMap<String, String>, canon: &HashMap<String, String>, excludes: &[&str], skip_non_keyboard: bool, args: &[String]) -> Vec<String> {
  let mut all: Vec<ExtractedInputDevice> = Vec::new();
  for d in dev {
    let p = &d.0;
    if !p.starts_with(VIRTUAL_PREFIX) {
      match resolve.get(p) { None => (), Some(dev_path) => all.push(ExtractedInputDevice { dev_path: PathBuf::from(dev_path), name: d.1.clone(), is_keyboard: d.2 }) }
    }
  }
  let flagged = rl::flag_excluded_devices(all, excludes);
  let mut canonical_set: HashMap<String, (ExtractedInputDevice, bool)> = HashMap::new();
  for p in flagged {
    if let Some(q) = canon.get(p.0.dev_path.to_str().unwrap()) { canonical_set.insert(q.to_string(), p); }
  }
  let mut res = Vec::new();
  for s in args {
    match canon.get(s) {
      None => (),
      Some(l) => {
        let l = l.replace("//", "/");
        if let Some(dev) = canonical_set.get(&l.to_string()) {
          if skip_non_keyboard && !dev.0.is_keyboard {}
          else {
            if dev.1 {} else { res.push(s.clone()) }
          }
        }
      }
    }
  }
  res
}

fn select_case(cx: &mut Ctx, rng: &mut Rng, g: &GenText, kbd: &[(String, String)], dev: &[(String, String, bool)], patterns: &[String]) {
  if dev.is_empty() || g.text.len() > 4000 { return; }
  cx.stats.select_cases += 1;
  // tables
  let mut sysfs: Vec<String> = dev.iter().map(|d| d.0.clone()).collect();
  sysfs.sort(); sysfs.dedup();
  let mut resolve: Vec<(String, String)> = Vec::new();
  let share_nodes = rng.chance(1, 6);
  for (i, s) in sysfs.iter().enumerate() {
    if rng.chance(1, 8) { continue; }   // no event node
    let n = if share_nodes { i / 2 } else { i };
    resolve.push((s.clone(), format!("/dev/input/event{}", n)));
  }
  let mut canon: Vec<(String, String)> = Vec::new();
  let mut args: Vec<String> = Vec::new();
  let mut nodes: Vec<String> = resolve.iter().map(|p| p.1.clone()).collect();
  nodes.sort(); nodes.dedup();
  let canon_collide = rng.chance(1, 8);
  for (i, n) in nodes.iter().enumerate() {
    if rng.chance(1, 10) { continue; }  // canonicalize fails
    let target = if canon_collide && i > 0 { nodes[i - 1].clone() } else if rng.chance(1, 12) { n.replace("/input/", "//input/") } else { n.clone() };
    canon.push((n.clone(), target.clone()));
    // ways to name it on the command line
    if rng.chance(2, 3) { args.push(n.clone()); }
    if rng.chance(1, 2) { let a = format!("/dev/input/by-id/usb-dev{}-event-kbd", i); canon.push((a.clone(), target.clone())); args.push(a); }
    if rng.chance(1, 6) { let a = format!("/dev//input/event{}", i); canon.push((a.clone(), target.replace("/input/", "//input/"))); args.push(a); }
    if rng.chance(1, 10) { let a = format!("/dev/input/alias{}", i); canon.push((a.clone(), target.replace("/dev/", "///dev/"))); args.push(a); }
  }
  if rng.chance(1, 4) { args.push("/dev/input/event99".to_string()); }
  if rng.chance(1, 4) { let a = "/dev/null".to_string(); canon.push((a.clone(), a.clone())); args.push(a); }
  let excludes: Vec<String> = if rng.chance(1, 3) { vec![] } else { patterns.iter().take(rng.range(1, patterns.len().max(1))).cloned().collect() };
  let skip = rng.chance(3, 4);

  let resolve_map: HashMap<String, String> = { let mut m = HashMap::new(); for (k, v) in &resolve { m.entry(k.clone()).or_insert(v.clone()); } m };
  let canon_map: HashMap<String, String> = { let mut m = HashMap::new(); for (k, v) in &canon { m.entry(k.clone()).or_insert(v.clone()); } m };
  let ex: Vec<&str> = excludes.iter().map(|s| s.as_str()).collect();
  let mut names: Vec<String> = dev.iter().map(|d| d.1.clone()).collect();
  names.sort(); names.dedup();
  let mut glob_true: Vec<(String, String)> = Vec::new();
  for p in &excludes { for n in &names { if WildMatch::new(p).matches(n) { glob_true.push((p.clone(), n.clone())); } } }
  glob_true.sort(); glob_true.dedup();

  let r = catch_unwind(AssertUnwindSafe(|| (impl_select_all(kbd, &resolve_map, &ex), impl_select_named(dev, &resolve_map, &canon_map, &ex, skip, &args))));
  let (all, named) = match r { Ok(x) => x, Err(_) => { cx.push_finding(Finding { kind: "impl-panic".into(), check: "selection-glue".into(), text: g.text.clone(), request: "-".into(), implementation: "panic".into(), model: "?".into(), extra: serde_json::Value::Null }); return; } };
  cx.stats.select_chosen_all += all.len() as u64;
  cx.stats.select_chosen_named += named.len() as u64;
  let env_json = serde_json::json!({"resolve": resolve, "canon": canon, "excludes": excludes, "skip_non_keyboard": skip, "args": args, "glob_true": glob_true});
  let req = format!("SEL {} {} {} {} {} {} {}", enc(&g.text), enc_pairs(&resolve), enc_pairs(&canon), enc_pairs(&glob_true), enc_texts(&excludes), if skip { 1 } else { 0 }, enc_texts(&args));
  cx.expect(KIND_SEL, &g.text, env_json.clone(), req, format!("{}#{}", enc_texts(&all), enc_texts(&named)));

  // C16_select on these outputs: for every extracted device d with resolve d.sysfs = p, canon p = c, c free of "//",
  // and no OTHER non-virtual listed device with the same canonical path:
  //   p in all  <=>  keyboard & !virtual & no pattern matches     (and the same for an argument naming it, with --only-if-keyboard)
  for d in dev {
    let p = match resolve_map.get(&d.0) { Some(p) => p, None => continue };
    let c = match canon_map.get(p) { Some(c) => c, None => continue };
    if c.contains("//") { continue; }
    let unique = dev.iter().all(|d2| {
      if d2.0.starts_with(VIRTUAL_PREFIX) { return true; }
      match resolve_map.get(&d2.0).and_then(|p2| canon_map.get(p2)) { Some(c2) if c2 == c => d2 == d, _ => true }
    });
    // the selectAll half only needs uniqueness of the device node
    let unique_node = dev.iter().all(|d2| {
      if d2.0.starts_with(VIRTUAL_PREFIX) { return true; }
      match resolve_map.get(&d2.0) { Some(p2) if p2 == p => d2 == d, _ => true }
    });
    let rhs = d.2 && !d.0.starts_with(VIRTUAL_PREFIX) && !ex.iter().any(|pat| WildMatch::new(pat).matches(&d.1));
    if !unique_node { cx.stats.select_statement_hyp_failed += 1; }
    else {
      cx.stats.select_statement_instances += 1;
      if all.contains(p) != rhs {
        cx.push_finding(Finding { kind: "property".into(), check: "C16_select_all".into(), text: g.text.clone(), request: "-".into(),
          implementation: format!("device {:?} node {} selected_by_all_keyboards={}", d, p, all.contains(p)), model: format!("expected {}", rhs), extra: env_json.clone() });
      }
    }
    if unique {
      for a in &args {
        if canon_map.get(a).map(|x| x == c).unwrap_or(false) {
          cx.stats.select_statement_instances += 1;
          let one = impl_select_named(dev, &resolve_map, &canon_map, &ex, true, &[a.clone()]);
          if one.contains(a) != rhs {
            cx.push_finding(Finding { kind: "property".into(), check: "C16_select_named".into(), text: g.text.clone(), request: "-".into(),
              implementation: format!("device {:?} argument {} selected_by_dev_file_only_if_keyboard={}", d, a, one.contains(a)), model: format!("expected {}", rhs), extra: env_json.clone() });
          }
        }
      }
    }
  }
}

fn replace_cases(cx: &mut Ctx, rng: &mut Rng, n: u64) {
  let directed = ["", "/", "//", "///", "////", "/////", "a//b", "/dev//input///event3", "//dev", "dev//", "a/b/c", "/\u{e9}//x"];
  for s in directed.iter() { cx.expect(KIND_REPL, s, serde_json::Value::Null, format!("LSREPL {}", enc(s)), enc(&s.replace("//", "/"))); }
  for _ in 0..n {
    let len = rng.range(0, 12);
    let s: String = (0..len).map(|_| *rng.pick(&['/', '/', 'a', 'b'])).collect();
    cx.expect(KIND_REPL, &s, serde_json::Value::Null, format!("LSREPL {}", enc(&s)), enc(&s.replace("//", "/")));
  }
  cx.sync();
}

fn part_c_texts(cx: &mut Ctx, rng: &mut Rng, n_random: u64) {
  let captured = captured_entries();
  let synth = synthetic_templates();

  // 1. the captured list as is, and each of its entries alone
  {
    let g = assemble(captured.clone(), false, false, "captured:whole".into());
    check_text(cx, rng, &g, 4);
    let whole = gaming_mouse_setup_1().to_string();
    if g.text != whole {
      cx.push_finding(Finding { kind: "divergence".into(), check: "harness-self-check".into(), text: whole, request: "-".into(), implementation: "captured text".into(), model: "re-assembled entries differ".into(), extra: serde_json::Value::Null });
    }
    if let Ok(d) = real_dev(&g.text) {
      cx.stats.samples.push(format!("[captured:whole] {} entries with a KEY line; keyboards: {:?}", d.len(), d.iter().filter(|x| x.2).map(|x| x.1.clone()).collect::<Vec<_>>()));
    }
    for (i, e) in captured.iter().enumerate() { let g = assemble(vec![e.clone()], false, false, format!("captured:{}", i)); check_text(cx, rng, &g, 2); }
  }
  // 2. every synthetic template alone, all pairs in both orders
  for (n, e) in &synth { let g = assemble(vec![e.clone()], false, true, format!("template:{}", n)); check_text(cx, rng, &g, 2); }
  for (n1, e1) in &synth { for (n2, e2) in &synth {
    let g = assemble(vec![e1.clone(), e2.clone()], false, true, format!("pair:{}+{}", n1, n2)); check_text(cx, rng, &g, 2);
    // the second entry without its I: line (merge) and without its name (inherits the neighbour's name)
    let mut e2m = e2.clone(); e2m.remove(0);
    let g = assemble(vec![e1.clone(), e2m.clone()], false, true, format!("pair-merged:{}+{}", n1, n2)); check_text(cx, rng, &g, 2);
    if let Some(i) = first_index(&e2m, "N: Name=") { e2m.remove(i); }
    let g = assemble(vec![e1.clone(), e2m], false, true, format!("pair-merged-noname:{}+{}", n1, n2)); check_text(cx, rng, &g, 2);
  } }
  // 3. directed boundaries: key counts 19/20/21 x normal keys 2/3 x names x LED bit
  for total in [19usize, 20, 21] { for normal in [2usize, 3] { for sd in [false, true] { for ev in ["120013", "100013"] { for name in ["X", "A Mouse", "Mouse Keyboard", "cros_ec", "\u{212A}EYBOARD Mouse"] { for upper in [false, true] {
    let mut m = boundary_mask(rng, total, normal, sd, false);
    if upper { m = m.to_uppercase(); }
    let e = entry("0003", Some(name), Some("/devices/x/input/input5"), "kbd event5", Some(ev), Some(&m), &[]);
    let g = assemble(vec![e, synth[0].1.clone(), synth[4].1.clone()], false, true, format!("boundary:{}:{}:{}:{}:{}:{}", total, normal, sd, ev, name, upper)); check_text(cx, rng, &g, 2);
  } } } } } }
  // 4. every name body x tail in a keyboard-like entry next to a mouse
  for b in NAME_BODIES { for t in NAME_TAILS {
    if b.contains('\n') || t.contains('\n') { continue; }
    let mut e = synth[3].1.clone();
    set_line(&mut e, "N: Name=", format!("N: Name=\"{}{}", b, t));
    let g = assemble(vec![synth[4].1.clone(), e], false, true, "names".into()); check_text(cx, rng, &g, 2);
  } }
  // 5. random assemblies with mutations
  let mut pool: Vec<(String, Vec<String>)> = Vec::new();
  for (i, e) in captured.iter().enumerate() { pool.push((format!("cap{}", i), e.clone())); }
  for (n, e) in &synth { pool.push((n.to_string(), e.clone())); pool.push((n.to_string(), e.clone())); }
  let mut mutation_counts: HashMap<&'static str, u64> = HashMap::new();
  for i in 0..n_random {
    let k = match rng.below(10) { 0 => 1, 1 => 2, 9 => rng.range(6, 12), _ => rng.range(2, 6) };
    let mut entries: Vec<Vec<String>> = Vec::new();
    let mut src = Vec::new();
    for _ in 0..k {
      let (n, e) = rng.pick(&pool).clone();
      let mut e = e;
      let nm = match rng.below(6) { 0 => 0, 1 | 2 => 1, 3 | 4 => 2, _ => rng.range(3, 6) };
      for _ in 0..nm { let tag = mutate(rng, &mut e); *mutation_counts.entry(tag).or_insert(0) += 1; }
      src.push(n);
      entries.push(e);
    }
    // shuffle entries
    for a in (1..entries.len()).rev() { let b = rng.below(a + 1); entries.swap(a, b); }
    let g = assemble(entries, rng.chance(1, 10), rng.chance(2, 3), format!("random:{}:{}", i, src.join("+")));
    check_text(cx, rng, &g, 3);
  }
  cx.sync();
  let mut mc: Vec<(String, u64)> = mutation_counts.into_iter().map(|(k, v)| (k.to_string(), v)).collect();
  mc.sort();
  cx.stats.samples.push(format!("mutations applied: {:?}", mc));
}

// ---------- e. the real list_keyboards / list_input_devices in a private mount namespace ----------

struct OsGlue { fake_devices: String }

fn os_glue_enter() -> Result<OsGlue, String> {
  use nix::sched::{unshare, CloneFlags};
  use nix::mount::{mount, MsFlags};
  if !std::path::Path::new("/proc/bus/input/devices").exists() { return Err("no /proc/bus/input/devices to mount over".into()); }
  unshare(CloneFlags::CLONE_NEWNS).map_err(|e| format!("unshare(CLONE_NEWNS): {}", e))?;
  // nothing mounted below may propagate out of this namespace; give up BEFORE mounting anything if that cannot be had
  mount(None::<&str>, "/", None::<&str>, MsFlags::MS_REC | MsFlags::MS_PRIVATE, None::<&str>).map_err(|e| format!("make / private: {}", e))?;
  mount(Some("tmpfs"), "/sys", Some("tmpfs"), MsFlags::empty(), None::<&str>).map_err(|e| format!("tmpfs on /sys: {}", e))?;
  let fake = format!("/tmp/tmharness_fake_proc_bus_input_devices_{}", std::process::id());
  std::fs::write(&fake, "").map_err(|e| format!("{}: {}", fake, e))?;
  mount(Some(fake.as_str()), "/proc/bus/input/devices", None::<&str>, MsFlags::MS_BIND, None::<&str>).map_err(|e| format!("bind over /proc/bus/input/devices: {}", e))?;
  Ok(OsGlue { fake_devices: fake })
}

fn sysfs_path_is_safe(p: &str) -> bool {
  // directories are created under the tmpfs at /sys only
  p.starts_with("/devices/") && !p.split('/').any(|c| c == ".." || c == ".") && !p.contains('\0') && !p.ends_with('/') && !p.contains("//") && p.len() < 200
    && p.split('/').all(|c| c.len() < 100)
}

fn os_glue_case(cx: &mut Ctx, rng: &mut Rng, os: &OsGlue, g: &GenText) {
  let text = &g.text;
  let dev = match real_dev(text) { Ok(d) => d, Err(_) => return };
  if dev.is_empty() { return; }
  let mut sysfs: Vec<String> = dev.iter().map(|d| d.0.clone()).collect();
  sysfs.sort(); sysfs.dedup();
  if !sysfs.iter().all(|p| p.starts_with(VIRTUAL_PREFIX) || sysfs_path_is_safe(p)) { return; }
  // no path may be a prefix directory of another one's event dir in a confusing way: "…/input5" vs "…/input5/event3"
  if sysfs.iter().any(|a| sysfs.iter().any(|b| a != b && b.starts_with(&format!("{}/", a)))) { return; }
  if std::fs::write(&os.fake_devices, text).is_err() { return; }
  let _ = std::fs::remove_dir_all("/sys/devices");
  let mut resolve: Vec<(String, String)> = Vec::new();
  let mut missing_dir = false;
  for (i, p) in sysfs.iter().enumerate() {
    if p.starts_with(VIRTUAL_PREFIX) {
      // a virtual device has an event node too; the code must not even look
      let d = format!("/sys{}/event{}", p, 900 + i);
      if sysfs_path_is_safe(p) && std::fs::create_dir_all(&d).is_ok() && std::fs::write(format!("{}/uevent", d), format!("MAJOR=13\nMINOR={}\nDEVNAME=input/event{}\n", 64 + i, 900 + i)).is_ok() {
        // the model is told about that node as well: it must skip the entry because of its path, not for lack of a node
        resolve.push((p.clone(), format!("/dev/input/event{}", 900 + i)));
      }
      continue;
    }
    let dir = format!("/sys{}", p);
    match rng.below(12) {
      0 => { missing_dir = true; },                                   // the directory is gone (device unplugged): IO error
      1 => { let _ = std::fs::create_dir_all(format!("{}/capabilities", dir)); },   // no event node
      _ => {
        let d = format!("{}/event{}", dir, i);
        if std::fs::create_dir_all(&d).is_err() { return; }
        let _ = std::fs::create_dir_all(format!("{}/capabilities", dir));
        let _ = std::fs::write(format!("{}/name", dir), "x\n");
        if std::fs::write(format!("{}/uevent", d), format!("MAJOR=13\nMINOR={}\nDEVNAME=input/event{}\n", 64 + i, i)).is_err() { return; }
        resolve.push((p.clone(), format!("/dev/input/event{}", i)));
      }
    }
  }
  cx.stats.os_glue_cases += 1;
  let rk = catch_unwind(AssertUnwindSafe(|| crate::keyboard_listing::list_keyboards(false)));
  let rd = catch_unwind(AssertUnwindSafe(|| crate::keyboard_listing::list_input_devices(false)));
  let extra = serde_json::json!({"source": g.source, "resolve": resolve});
  match (rk, rd) {
    (Ok(rk), Ok(rd)) => {
      if missing_dir {
        // the model has no IO errors; what must hold: list_input_devices fails (it resolves every non-virtual entry)
        cx.stats.os_glue_io_error_cases += 1;
        if rd.is_ok() {
          cx.push_finding(Finding { kind: "divergence".into(), check: "list_input_devices-io-error".into(), text: text.clone(), request: "-".into(), implementation: "Ok although a sysfs directory is missing".into(), model: "harness expectation: Err".into(), extra });
        }
        return;
      }
      match (rk, rd) {
        (Ok(k), Ok(d)) => {
          let k: Vec<(String, String)> = k.into_iter().map(|x| (x.dev_path.to_string_lossy().to_string(), x.name)).collect();
          let d: Vec<(String, String, bool)> = d.into_iter().map(|x| (x.dev_path.to_string_lossy().to_string(), x.name, x.is_keyboard)).collect();
          cx.stats.os_glue_devices_listed += d.len() as u64;
          cx.stats.os_glue_virtual_skipped += dev.iter().filter(|x| x.0.starts_with(VIRTUAL_PREFIX)).count() as u64;
          cx.stats.os_glue_no_event_node += dev.iter().filter(|x| !x.0.starts_with(VIRTUAL_PREFIX) && !resolve.iter().any(|r| r.0 == x.0)).count() as u64;
          // C16 directly on what the real listing functions return: a keyboard-like entry with an event node whose sysfs
          // path is NOT under the virtual-input tree is listed (both paths), one under it never is
          for x in dev.iter() {
            if dev.iter().filter(|y| y.0 == x.0).count() != 1 { continue; }
            let node = match resolve.iter().find(|r| r.0 == x.0) { Some(r) => r.1.clone(), None => continue };
            if resolve.iter().filter(|r| r.1 == node).count() != 1 { continue; }
            let virt = x.0.starts_with(VIRTUAL_PREFIX);
            let in_k = k.iter().any(|e| e.0 == node);
            let in_d = d.iter().any(|e| e.0 == node);
            if in_k != (x.2 && !virt) || in_d != !virt {
              cx.push_finding(Finding { kind: "property".into(), check: "C16_os_glue_select".into(), text: text.clone(), request: "-".into(),
                implementation: format!("entry {:?} (node {}): listed by list_keyboards={} by list_input_devices={}", x, node, in_k, in_d),
                model: format!("expected list_keyboards={} list_input_devices={} (keyboard-like={}, under {}={})", x.2 && !virt, !virt, x.2, VIRTUAL_PREFIX, virt), extra: extra.clone() });
            }
          }
          cx.expect(KIND_LISTK, text, extra.clone(), format!("LISTK {} {}", enc(text), enc_pairs(&resolve)), show_kbds(&k));
          cx.expect(KIND_LISTD, text, extra.clone(), format!("LISTD {} {}", enc(text), enc_pairs(&resolve)), show_devs(&d));
        },
        (k, d) => {
          cx.push_finding(Finding { kind: "divergence".into(), check: "list-io-error".into(), text: text.clone(), request: "-".into(),
            implementation: format!("list_keyboards: {:?} list_input_devices: {:?}", k.err().map(|e| e.to_string()), d.err().map(|e| e.to_string())), model: "no IO error expected: every directory exists".into(), extra });
        }
      }
    },
    _ => cx.push_finding(Finding { kind: "impl-panic".into(), check: "list_keyboards".into(), text: text.clone(), request: "-".into(), implementation: "panic".into(), model: "?".into(), extra })
  }
}

fn part_e_os_glue(cx: &mut Ctx, rng: &mut Rng, n_random: u64) {
  let os = match os_glue_enter() { Ok(o) => o, Err(e) => { cx.stats.os_glue_status = format!("skipped: {}", e); return; } };
  cx.stats.os_glue_status = "ran in a private mount namespace".into();
  let captured = captured_entries();
  let synth = synthetic_templates();
  let g = assemble(captured.clone(), false, false, "os:captured".into());
  os_glue_case(cx, rng, &os, &g);
  let g = assemble(synth.iter().map(|x| x.1.clone()).collect(), false, true, "os:all-templates".into());
  for _ in 0..8 { os_glue_case(cx, rng, &os, &g); }
  let mut pool: Vec<Vec<String>> = captured.clone();
  for (_, e) in &synth { pool.push(e.clone()); pool.push(e.clone()); }
  for i in 0..n_random {
    let k = rng.range(1, 6);
    let mut entries = Vec::new();
    for _ in 0..k {
      let mut e = rng.pick(&pool).clone();
      for _ in 0..rng.below(3) { mutate(rng, &mut e); }
      entries.push(e);
    }
    for a in (1..entries.len()).rev() { let b = rng.below(a + 1); entries.swap(a, b); }
    let g = assemble(entries, rng.chance(1, 20), true, format!("os:random:{}", i));
    os_glue_case(cx, rng, &os, &g);
  }
  cx.sync();
  let _ = std::fs::remove_file(&os.fake_devices);
}

pub fn run(opts: &Opts) -> i32 {
  let seed = opts.num("seed", 1);
  let thorough = opts.thorough();
  let mut rng = Rng::new(seed);
  let out_dir = opts.get_or("out", "/verif/harness/tmp/listing").to_string();
  let _ = std::fs::create_dir_all(&out_dir);
  let scale = if thorough { 20 } else { 1 };
  let n_texts = opts.num("texts", 3000 * scale);
  let n_masks = opts.num("masks", 20000 * scale);
  let n_names = opts.num("names", 5000 * scale);

  let old_hook = std::panic::take_hook();
  std::panic::set_hook(Box::new(|_| {}));

  let mut cx = Ctx { lean: Lean::start(), stats: Stats::default(), findings: Vec::new(), pending: Vec::new(), max_findings: 20 };
  if !opts.flag("skip-unicode") { part_a_unicode(&mut cx); }
  part_a2_names(&mut cx, &mut rng.fork(1), n_names);
  part_b_masks(&mut cx, &mut rng.fork(2), n_masks);
  replace_cases(&mut cx, &mut rng.fork(3), 2000 * scale);
  part_c_texts(&mut cx, &mut rng.fork(4), n_texts);
  cx.sync();
  if !opts.flag("skip-os") { part_e_os_glue(&mut cx, &mut rng.fork(5), opts.num("os-texts", 400 * scale)); } else { cx.stats.os_glue_status = "skipped: --skip-os".into(); }
  std::panic::set_hook(old_hook);

  let Ctx { lean, stats, findings, .. } = cx;
  let lean_requests = lean.sent;
  lean.finish();

  for (i, f) in findings.iter().enumerate() {
    let path = format!("{}/finding_{}_{}.json", out_dir, seed, i);
    std::fs::write(&path, serde_json::to_string_pretty(&finding_json(f)).unwrap()).unwrap();
    match f.kind.as_str() {
      "property" => println!("FINDING kind=property properties=C16 replay={}", path),
      "impl-panic" => println!("FINDING kind=impl-panic properties=C16 replay={}", path),
      _ => println!("FINDING kind=divergence properties=- replay={}", path)
    }
  }

  let cases = stats.cases + stats.mask_cases + stats.haskbd_cases + stats.name_cases + 2 * stats.unicode_scalars;
  let mut distribution = serde_json::json!({
      "unicode_scalars_checked": stats.unicode_scalars, "whitespace_chars": stats.whitespace_chars,
      "non_ascii_chars_lowercasing_to_a_letter_of_keyboard": stats.lower_to_keyboard_letter,
      "chars_with_multi_char_lowercase": stats.lower_multi_char,
      "mask_cases": stats.mask_cases, "mask_parse_errors": stats.mask_errors, "mask_ok_empty_set": stats.mask_ok_empty, "mask_ok_nonempty": stats.mask_ok_nonempty,
      "has_keyboard_in_name_cases": stats.haskbd_cases, "has_keyboard_in_name_true": stats.haskbd_true, "name_parsing_cases": stats.name_cases,
      "device_list_texts": stats.texts, "entries_classified_keyboard": stats.entries_keyboard, "entries_classified_not_keyboard": stats.entries_not_keyboard,
      "entries_returned_by_keyboard_copy": stats.kbd_copy_entries
  });
  let distribution2 = serde_json::json!({
      "texts_with_merged_entries": stats.texts_merged, "texts_with_every_entry_starting_with_I": stats.texts_all_i_first, "texts_with_crlf": stats.texts_crlf,
      "texts_with_repeated_key_line_in_one_entry": stats.texts_with_repeated_key_line,
      "key_lines": stats.key_lines, "key_line_mask_parse_errors": stats.key_line_mask_errors, "ev_line_mask_parse_errors": stats.ev_line_mask_errors,
      "agreement_checks": stats.agreement_checks, "locality_checks": stats.locality_checks,
      "exclusion_flag_checks": stats.exclusion_checks, "exclusion_flagged": stats.exclusion_flagged,
      "selection_cases": stats.select_cases, "selection_statement_instances": stats.select_statement_instances,
      "selection_statement_instances_skipped_uniqueness_hypothesis_false": stats.select_statement_hyp_failed,
      "devices_selected_all_keyboards": stats.select_chosen_all, "arguments_selected_dev_file": stats.select_chosen_named,
      "os_glue": stats.os_glue_status, "os_glue_cases": stats.os_glue_cases, "os_glue_cases_with_missing_sysfs_dir_io_error": stats.os_glue_io_error_cases,
      "os_glue_devices_listed": stats.os_glue_devices_listed, "os_glue_virtual_entries_skipped": stats.os_glue_virtual_skipped, "os_glue_entries_without_event_node": stats.os_glue_no_event_node
  });
  if let (Some(a), Some(b)) = (distribution.as_object_mut(), distribution2.as_object()) { for (k, v) in b { a.insert(k.clone(), v.clone()); } }
  let stats_json = serde_json::json!({
    "suite": "listing", "seed": seed, "tier": if thorough { "thorough" } else { "quick" },
    "cases": cases,
    "distinct_nontrivial": stats.nontrivial.len(),
    "rule": "a device-list text is non-trivial when the real extract_input_devices classifies at least one of its entries as a keyboard and at least one as not a keyboard; distinct = distinct texts (FNV-1a of the bytes)",
    "divergences": stats.divergences, "monitor_violations": stats.monitor_violations, "impl_panics": stats.impl_panics,
    "findings": findings.len(), "lean_requests": lean_requests,
    "samples": stats.samples,
    "distribution": distribution
  });
  if let Some(p) = opts.get("stats") { std::fs::write(p, serde_json::to_string_pretty(&stats_json).unwrap()).unwrap(); }
  println!("STATS {}", stats_json);
  if findings.is_empty() && stats.divergences == 0 && stats.monitor_violations == 0 && stats.impl_panics == 0 { 0 } else { 1 }
}

// ---- replay of a finding / witness: JSON with "text" (a device list; or a mask if "check" is
// "parse_mask_hex").  Prints what the implementation and the model say and re-evaluates agreement
// and, if "entries" is present in "extra", locality.  Exit 1 on any disagreement / violated statement.
pub fn replay(opts: &Opts) -> i32 {
  let path = match opts.get("file") { Some(p) => p, None => { eprintln!("--file required"); return 2; } };
  let raw = std::fs::read_to_string(path).expect("cannot read replay file");
  let v: serde_json::Value = serde_json::from_str(&raw).expect("replay file is not JSON");
  let text = v["text"].as_str().expect("text").to_string();
  let check = v["check"].as_str().unwrap_or("extract").to_string();
  let mut lean = Lean::start();
  let mut bad = 0;
  if check == "parse_mask_hex" {
    let real = real_mask(&text);
    let model = lean.ask(&format!("MASK {}", enc(&text)));
    let real_s = match &real { Ok(m) => show_mask(m), Err(_) => "panic".to_string() };
    println!("parse_mask_hex({:?}): implementation {} ; model {}", text, real_s, model);
    if real_s != model { bad += 1; }
  }
  else if let Some(req) = v["request"].as_str().filter(|r| *r != "-" && check != "extract_keyboards" && check != "extract_input_devices" && !check.starts_with("C16")) {
    let model = lean.ask(req);
    let expected = v["extra"]["implementation_raw"].as_str().or(v["implementation"].as_str()).unwrap_or("");
    println!("{}: recorded implementation answer {} ; model now {}", check, expected, model);
    if model != expected { bad += 1; }
  }
  else {
    let kbd = real_kbd(&text);
    let dev = real_dev(&text);
    match (&kbd, &dev) {
      (Ok(k), Ok(d)) => {
        let mk = lean.ask(&format!("KBD {}", enc(&text)));
        let md = lean.ask(&format!("DEV {}", enc(&text)));
        println!("extract_input_devices: {:?}", human_devs(d));
        println!("extract_keyboards:     {:?}", human_kbds(k));
        println!("model agrees on devices: {} ; on keyboards: {}", md == show_devs(d), mk == show_kbds(k));
        if md != show_devs(d) || mk != show_kbds(k) { bad += 1; }
        let filtered: Vec<(String, String)> = d.iter().filter(|x| x.2).map(|x| (x.0.clone(), x.1.clone())).collect();
        println!("C16_agree on the implementation: {}", filtered == *k);
        if filtered != *k { bad += 1; }
        if let Some(entries) = v["extra"]["entries"].as_array() {
          let mut cat: Vec<(String, String, bool)> = Vec::new();
          for e in entries {
            let lines: Vec<String> = e.as_array().map(|a| a.iter().map(|x| x.as_str().unwrap_or("").to_string()).collect()).unwrap_or_default();
            if let Ok(x) = real_dev(&lines.join("\n")) { cat.extend(x); }
          }
          println!("C16_local on the implementation: {}", cat == *d);
          if cat != *d { bad += 1; }
        }
      },
      _ => { println!("implementation PANICS"); bad += 1; }
    }
  }
  lean.finish();
  if bad > 0 { println!("REPLAY: {} check(s) fail", bad); 1 } else { println!("REPLAY: clean"); 0 }
}
