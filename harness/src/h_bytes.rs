// Suite S-bytes (property C18): the real `DevInputWriter::send` and `DevInputReader::next` on the two
// ends of pipes, compared byte for byte / event for event with the Lean model
// (lean/TmVerif/Model/InputEvent.lean: encodeBatch, decodeStream, knownCode) and checked against the
// executable statement of C18 (`monC18`, evaluated by the Lean driver on the IMPLEMENTATION's bytes).
//
//   write side:  send(evs) -> pipe A -> raw bytes (read here with nix::unistd::read)  == ENC evs ?
//   read side:   bytes (the writer's own records, foreign records interleaved) -> pipe B ->
//                DevInputReader::next until EAGAIN                                      == DEC bytes ?
//                                                                                       == evs ?  (C18)
//
// Foreign records are built through `libc::input_event` (the kernel's struct), with time stamps, so
// the record layout the model assumes is also the layout the C struct has on this target.

use crate::keys::{Event, KeyCode};
use crate::dev_input_rw::{DevInputReader, DevInputWriter};
use crate::h_util::{Opts, Rng};
use crate::h_lean::{Lean, Mismatch};
use crate::h_fmt as fmt;
use nix::errno::Errno;
use nix::fcntl::{fcntl, FcntlArg, OFlag};
use num_traits::FromPrimitive;
use std::collections::hash_map::DefaultHasher;
use std::collections::{BTreeMap, HashSet};
use std::hash::{Hash, Hasher};
use std::os::unix::io::RawFd;
use std::panic::{catch_unwind, AssertUnwindSafe};

const KIND_ENC: u8 = 1;
const KIND_DEC: u8 = 2;
const KIND_C18: u8 = 3;
const KIND_KNOWN: u8 = 4;

const REC: usize = 24;
const MAX_REPLAYS: usize = 20;
const RULE: &str = "every batch is sent through the real DevInputWriter::send into a pipe and the raw bytes read back must equal the model's encodeBatch and satisfy the C18 statement monC18; the same bytes, as they are and with foreign records (auto-repeat, non-key, unknown code, bad value; built via libc::input_event with time stamps) interleaved at record boundaries, are written into a second pipe and the real DevInputReader::next, called until EAGAIN, must return exactly the model's decodeStream and exactly the batch";

// ---- the target's struct input_event ----

struct LayoutFacts { size: usize, off_type: usize, off_code: usize, off_value: usize, little_endian: bool }

fn layout_facts() -> LayoutFacts {
  let u = std::mem::MaybeUninit::<libc::input_event>::uninit();
  let base = u.as_ptr();
  let (t, c, v) = unsafe {
    (std::ptr::addr_of!((*base).type_) as usize - base as usize,
     std::ptr::addr_of!((*base).code) as usize - base as usize,
     std::ptr::addr_of!((*base).value) as usize - base as usize)
  };
  LayoutFacts {
    size: std::mem::size_of::<libc::input_event>(), off_type: t, off_code: c, off_value: v,
    little_endian: cfg!(target_endian = "little") && 1u16.to_ne_bytes() == [1, 0]
  }
}

// One record as the kernel hands it to a reader: the C struct, copied out byte by byte.
fn kernel_record(sec: i64, usec: i64, type_: u16, code: u16, value: i32) -> Vec<u8> {
  let mut ev: libc::input_event = unsafe { std::mem::zeroed() };
  ev.time.tv_sec = sec as libc::time_t;
  ev.time.tv_usec = usec as libc::suseconds_t;
  ev.type_ = type_;
  ev.code = code;
  ev.value = value;
  let p = &ev as *const libc::input_event as *const u8;
  unsafe { std::slice::from_raw_parts(p, std::mem::size_of::<libc::input_event>()) }.to_vec()
}

// ---- pipes ----

struct Pipe { r: RawFd, w: RawFd }

impl Pipe {
  fn new() -> Pipe {
    let (r, w) = nix::unistd::pipe().expect("pipe");
    fcntl(r, FcntlArg::F_SETFL(OFlag::O_NONBLOCK)).expect("fcntl O_NONBLOCK");
    Pipe { r, w }
  }
  // everything currently in the pipe (the write end stays open, so an empty pipe is EAGAIN, never EOF)
  fn drain(&self) -> Vec<u8> {
    let mut out = Vec::new();
    let mut buf = vec![0u8; 1 << 16];
    loop {
      match nix::unistd::read(self.r, &mut buf) {
        Ok(0) => break,
        Ok(n) => out.extend_from_slice(&buf[..n]),
        Err(nix::Error::Sys(Errno::EAGAIN)) => break,
        Err(e) => panic!("pipe read: {:?}", e)
      }
    }
    out
  }
  fn put(&self, bytes: &[u8]) {
    let mut off = 0;
    while off < bytes.len() {
      off += nix::unistd::write(self.w, &bytes[off..]).expect("pipe write");
    }
  }
}

impl Drop for Pipe {
  fn drop(&mut self) { let _ = nix::unistd::close(self.r); let _ = nix::unistd::close(self.w); }
}

struct Rig { a: Pipe, b: Pipe, writer: DevInputWriter, reader: DevInputReader }

impl Rig {
  fn new() -> Rig {
    let a = Pipe::new();
    let b = Pipe::new();
    let writer = DevInputWriter::verif_from_fd(a.w);
    let reader = DevInputReader { fd: b.r };
    Rig { a, b, writer, reader }
  }

  // the real writer; returns the raw bytes that arrived at the other end
  fn send(&mut self, evs: &Vec<Event>) -> Result<Vec<u8>, String> {
    let w = &mut self.writer;
    match catch_unwind(AssertUnwindSafe(|| w.send(evs))) {
      Ok(Ok(())) => Ok(self.a.drain()),
      Ok(Err(e)) => { let _ = self.a.drain(); Err(format!("send returned Err({:?})", e)) },
      Err(_) => { let _ = self.a.drain(); Err("send panicked".to_string()) }
    }
  }

  // the real reader on a stream of whole records, until EAGAIN
  fn read_all(&mut self, stream: &[u8]) -> Result<Vec<Event>, String> {
    assert!(stream.len() % REC == 0 && stream.len() < 60000);
    self.b.put(stream);
    let mut out = Vec::new();
    let res = loop {
      let r = &mut self.reader;
      match catch_unwind(AssertUnwindSafe(|| r.next())) {
        Ok(Ok(ev)) => out.push(ev),
        Ok(Err(nix::Error::Sys(Errno::EAGAIN))) => break Ok(out),
        Ok(Err(e)) => break Err(format!("next returned Err({:?}) after {} events", e, out.len())),
        Err(_) => break Err(format!("next panicked after {} events", out.len()))
      }
    };
    let _ = self.b.drain();
    res
  }
}

// ---- text ----

fn hex(bytes: &[u8]) -> String {
  if bytes.is_empty() { return "-".to_string(); }
  let mut s = String::with_capacity(bytes.len() * 2);
  for b in bytes { s.push_str(&format!("{:02x}", b)); }
  s
}

fn unhex(s: &str) -> Option<Vec<u8>> {
  if s == "-" { return Some(vec![]); }
  if s.len() % 2 != 0 { return None; }
  (0..s.len() / 2).map(|i| u8::from_str_radix(s.get(2 * i..2 * i + 2)?, 16).ok()).collect()
}

fn hex_records(bytes: &[u8]) -> String {
  bytes.chunks(REC).map(|c| {
    if c.len() == REC { format!("{}|{}|{}|{}", hex(&c[0..16]), hex(&c[16..18]), hex(&c[18..20]), hex(&c[20..24])) } else { hex(c) }
  }).collect::<Vec<_>>().join(" ")
}

// ---- foreign records ----

const UNKNOWN_SAMPLES: [u16; 12] = [0, 84, 249, 600, 701, 767, 768, 1023, 0x011e + 0x0200, 0x8001, 65534, 65535];
const NONKEY_TYPES: [u16; 9] = [0, 2, 3, 4, 5, 17, 20, 21, 0x0101];

fn stamp(rng: &mut Rng) -> (i64, i64) {
  match rng.below(4) {
    0 => (0, 0),
    1 => (1_700_000_000 + rng.below(100_000_000) as i64, rng.below(1_000_000) as i64),
    2 => (rng.below(1 << 31) as i64, rng.below(1_000_000) as i64),
    // time bytes that look like key records themselves
    _ => (0x0001_001e_0001_0001, 0x0000_0001_001e_0001)
  }
}

// A record the reader must skip, with the family it belongs to.
fn foreign_record(rng: &mut Rng, known: &[KeyCode], is_known: &[bool]) -> (&'static str, Vec<u8>) {
  let (sec, usec) = stamp(rng);
  let k = *rng.pick(known) as i32 as u16;
  match rng.below(6) {
    0 => ("autorepeat", kernel_record(sec, usec, 1, k, 2)),
    1 => {
      let t = *rng.pick(&NONKEY_TYPES);
      let code = if rng.chance(1, 2) { k } else { rng.below(65536) as u16 };
      let value = match rng.below(4) { 0 => 0, 1 => 1, 2 => 2, _ => rng.next() as i32 };
      ("nonkey", kernel_record(sec, usec, t, code, value))
    },
    2 => {
      let mut code = if rng.chance(2, 3) { *rng.pick(&UNKNOWN_SAMPLES) } else { rng.below(65536) as u16 };
      while is_known[code as usize] { code = rng.below(65536) as u16; }
      ("unknown-code", kernel_record(sec, usec, 1, code, rng.below(2) as i32))
    },
    3 => {
      let vals: [i32; 10] = [-1, 257, 256, 0x0100_0001, 0x0100_0000, 0x0001_0001, i32::MIN, i32::MAX, 3, -2];
      let v = if rng.chance(3, 4) { *rng.pick(&vals) } else {
        let mut v = rng.next() as i32;
        while v == 0 || v == 1 { v = rng.next() as i32; }
        v
      };
      ("bad-value", kernel_record(sec, usec, 1, k, v))
    },
    4 => {
      // EV_KEY in the low byte only / code of a known key in the low byte only
      if rng.chance(1, 2) { ("nonkey", kernel_record(sec, usec, 1 + 256 * (1 + rng.below(255) as u16), k, rng.below(2) as i32)) }
      else {
        let mut c = (k & 0xff) | ((1 + rng.below(255) as u16) << 8);
        while is_known[c as usize] { c = (k & 0xff) | ((1 + rng.below(255) as u16) << 8); }
        ("unknown-code", kernel_record(sec, usec, 1, c, rng.below(2) as i32))
      }
    },
    _ => {
      // every EV_SYN code the kernel defines (SYN_REPORT 0, SYN_CONFIG 1, SYN_MT_REPORT 2, SYN_DROPPED 3) and a few it does not
      let codes: [u16; 8] = [0, 0, 1, 2, 3, 3, 4, 15];
      let code = if rng.chance(7, 8) { *rng.pick(&codes) } else { rng.below(65536) as u16 };
      let value = match rng.below(4) { 0 | 1 => 0, 2 => 1, _ => rng.next() as i32 };
      ("syn", kernel_record(sec, usec, 0, code, value))
    }
  }
}

// ---- findings ----

struct Finding { kind: &'static str, check: &'static str, events: String, written: String, stream: String, impl_says: String, model_says: String, note: String }

struct Ctx {
  lean: Lean,
  rig: Rig,
  cases: u64,
  records_written: u64,
  records_read: u64,
  foreign_records: u64,
  foreign_by_family: BTreeMap<String, u64>,
  kernel_stamped_key_records: u64,
  distinct: HashSet<u64>,
  divergences: u64,
  violations: u64,
  findings: Vec<Finding>,
  samples: Vec<String>,
  pending: Vec<(String, String, String)>   // per case since the last sync: (events, written hex, stream hex)
}

impl Ctx {
  fn finding(&mut self, f: Finding) {
    if f.kind == "divergence" { self.divergences += 1; } else { self.violations += 1; }
    // a flood of one kind must not hide the other
    if self.findings.iter().filter(|g| g.kind == f.kind).count() < 100 { self.findings.push(f); }
  }

  fn note_distinct(&mut self, evs: &str, stream: &[u8]) {
    let mut h = DefaultHasher::new();
    evs.hash(&mut h);
    stream.hash(&mut h);
    self.distinct.insert(h.finish());
  }

  // One case: `evs` through the real writer; then the read side on the writer's own bytes, and
  // (if `foreign_per_gap` > 0) on a stream with foreign and kernel-stamped records interleaved.
  fn case(&mut self, evs: &Vec<Event>, rng: &mut Rng, foreign_per_gap: usize, known: &[KeyCode], is_known: &[bool], sample: bool) {
    self.cases += 1;
    let evs_s = fmt::events(evs);
    let raw = match self.rig.send(evs) {
      Ok(b) => b,
      Err(e) => {
        self.finding(Finding { kind: "divergence", check: "enc", events: evs_s.clone(), written: "-".into(), stream: "-".into(), impl_says: e, model_says: "the batch is written".into(), note: "DevInputWriter::send failed on a pipe".into() });
        return;
      }
    };
    self.records_written += (raw.len() / REC) as u64;
    let raw_hex = hex(&raw);
    let tag = self.pending.len() as u64;

    // write side: model's bytes == implementation's bytes
    self.lean.expect(KIND_ENC, tag, format!("ENC {}", evs_s), raw_hex.clone());

    // C18's executable statement on the implementation's bytes, read back behind a foreign prefix
    let mut prefix: Vec<u8> = Vec::new();
    for _ in 0..rng.below(4) { prefix.extend(foreign_record(rng, known, is_known).1); }
    self.lean.expect(KIND_C18, tag, format!("C18 {} {} {}", evs_s, raw_hex, hex(&prefix)), "ok".to_string());

    if raw.len() % REC != 0 {
      // not a stream of whole records: the ENC/C18 requests above report it; the read side is undefined
      self.pending.push((evs_s, raw_hex, "-".into()));
      return;
    }

    // read side 1: the writer's very bytes
    let mut streams: Vec<(Vec<u8>, Vec<Event>)> = vec![(raw.clone(), evs.clone())];

    // read side 2: foreign records anywhere between whole records; some key records re-stamped as
    // the kernel would deliver them, some extra kernel-stamped key records
    if foreign_per_gap > 0 {
      let mut s: Vec<u8> = Vec::new();
      let mut expect: Vec<Event> = Vec::new();
      let recs: Vec<&[u8]> = raw.chunks(REC).collect();
      for (i, r) in recs.iter().enumerate() {
        for _ in 0..rng.below(foreign_per_gap + 1) {
          let (fam, bytes) = foreign_record(rng, known, is_known);
          *self.foreign_by_family.entry(fam.to_string()).or_insert(0) += 1;
          self.foreign_records += 1;
          s.extend(bytes);
        }
        if rng.chance(1, 8) {
          let k = *rng.pick(known);
          let press = rng.chance(1, 2);
          let (sec, usec) = stamp(rng);
          s.extend(kernel_record(sec, usec, 1, k as i32 as u16, if press { 1 } else { 0 }));
          expect.push(if press { Event::Pressed(k) } else { Event::Released(k) });
          self.kernel_stamped_key_records += 1;
        }
        if i < evs.len() && rng.chance(1, 4) {
          // the same record with a time stamp in front
          let (sec, usec) = stamp(rng);
          let mut r2 = kernel_record(sec, usec, 0, 0, 0);
          r2[16..24].copy_from_slice(&r[16..24]);
          s.extend(r2);
          self.kernel_stamped_key_records += 1;
        }
        else { s.extend_from_slice(r); }
        if i < evs.len() { expect.push(evs[i].clone()); }
      }
      for _ in 0..rng.below(foreign_per_gap + 1) {
        let (fam, bytes) = foreign_record(rng, known, is_known);
        *self.foreign_by_family.entry(fam.to_string()).or_insert(0) += 1;
        self.foreign_records += 1;
        s.extend(bytes);
      }
      streams.push((s, expect));
    }

    let mut last_stream_hex = String::from("-");
    for (stream, expect) in streams {
      let stream_hex = hex(&stream);
      self.records_read += (stream.len() / REC) as u64;
      if !evs.is_empty() || stream.len() > REC { self.note_distinct(&evs_s, &stream); }
      match self.rig.read_all(&stream) {
        Ok(decoded) => {
          let dec_s = fmt::events(&decoded);
          self.lean.expect(KIND_DEC, tag, format!("DEC {}", stream_hex), dec_s.clone());
          if decoded != expect {
            self.finding(Finding { kind: "property", check: "read", events: evs_s.clone(), written: raw_hex.clone(), stream: stream_hex.clone(), impl_says: dec_s, model_says: fmt::events(&expect), note: "the tool's reader does not return the events that were sent (foreign records must be skipped)".into() });
          }
          else if sample && self.samples.len() < 10 && !evs.is_empty() && evs.len() <= 6 && stream.len() <= 16 * REC {
            let fed = if stream == raw { "the same bytes".to_string() } else { format!("{} records (the writer's, with foreign / kernel-stamped records in between): {}", stream.len() / REC, hex_records(&stream)) };
            self.samples.push(format!("send [{}] wrote {} bytes: {} ; reader fed {} returned [{}]",
              fmt::events_human(evs), raw.len(), hex_records(&raw), fed, fmt::events_human(&decoded)));
          }
        },
        Err(e) => {
          self.finding(Finding { kind: "divergence", check: "dec", events: evs_s.clone(), written: raw_hex.clone(), stream: stream_hex.clone(), impl_says: e, model_says: fmt::events(&expect), note: "DevInputReader::next failed on a stream of whole records".into() });
        }
      }
      last_stream_hex = stream_hex;
    }
    self.pending.push((evs_s, raw_hex, last_stream_hex));
  }

  fn sync(&mut self) {
    let (_n, ms) = self.lean.sync();
    let pending = std::mem::replace(&mut self.pending, Vec::new());
    for m in ms { self.mismatch(m, &pending); }
  }

  fn mismatch(&mut self, m: Mismatch, pending: &[(String, String, String)]) {
    let blank = ("-".to_string(), "-".to_string(), "-".to_string());
    let (evs, written, _) = pending.get(m.tag as usize).unwrap_or(&blank).clone();
    let toks: Vec<&str> = m.req.split(' ').collect();
    match m.kind {
      KIND_ENC => self.finding(Finding { kind: "divergence", check: "enc", events: evs, written: m.expected.clone(), stream: "-".into(), impl_says: m.expected, model_says: m.got, note: "bytes written by DevInputWriter::send differ from the model's encodeBatch".into() }),
      KIND_DEC => self.finding(Finding { kind: "divergence", check: "dec", events: evs, written, stream: toks.get(1).unwrap_or(&"-").to_string(), impl_says: m.expected, model_says: m.got, note: "events returned by DevInputReader::next differ from the model's decodeStream".into() }),
      KIND_C18 => self.finding(Finding { kind: "property", check: "c18", events: evs, written, stream: toks.get(3).unwrap_or(&"-").to_string(), impl_says: toks.get(2).unwrap_or(&"-").to_string(), model_says: m.got, note: "monC18 fails on the implementation's bytes (stream = foreign prefix)".into() }),
      _ => self.finding(Finding { kind: "divergence", check: "known", events: "-".into(), written: "-".into(), stream: "-".into(), impl_says: format!("{} -> {}", m.req, m.expected), model_says: m.got, note: "FromPrimitive::from_u16 and the model's knownCode disagree".into() })
    }
  }
}

fn finding_json(f: &Finding) -> serde_json::Value {
  serde_json::json!({
    "suite": "bytes", "kind": f.kind, "properties": if f.kind == "property" { vec!["C18"] } else { vec![] },
    "check": f.check, "events": f.events, "written_bytes": f.written, "stream": f.stream,
    "implementation": f.impl_says, "model": f.model_says, "note": f.note
  })
}

fn random_batch(rng: &mut Rng, known: &[KeyCode]) -> Vec<Event> {
  // mostly short; one in ten is long (around powers of two and a few hundred events: buffer-size and
  // framing boundaries), the 64 KiB pipe bounds the stream length
  let n = match rng.below(20) { 0 => 0, 1 => 1, 2 => 40, 3 => *rng.pick(&[63usize, 64, 65, 127, 128, 129, 255, 256, 257, 511, 512, 513]), 4 => rng.range(41, 600), _ => rng.below(41) };
  // a small pool makes repeated keys (press … release of the same key) common
  let pool: Vec<KeyCode> = (0..rng.range(1, 12)).map(|_| *rng.pick(known)).collect();
  (0..n).map(|_| {
    let k = if rng.chance(3, 4) { *rng.pick(&pool) } else { *rng.pick(known) };
    if rng.chance(1, 2) { Event::Pressed(k) } else { Event::Released(k) }
  }).collect()
}

pub fn run(opts: &Opts) -> i32 {
  let seed = opts.num("seed", std::env::var("VERIF_SEED").ok().and_then(|s| s.parse().ok()).unwrap_or(1));
  let thorough = opts.thorough();
  let out_dir = opts.get_or("out", "/verif/harness/tmp/bytes").to_string();
  let _ = std::fs::create_dir_all(&out_dir);
  // stale replays of an earlier run must not be mistaken for findings of this one
  if let Ok(rd) = std::fs::read_dir(&out_dir) {
    for e in rd.flatten() {
      let n = e.file_name().to_string_lossy().to_string();
      if n.starts_with("finding-") && n.ends_with(".json") { let _ = std::fs::remove_file(e.path()); }
    }
  }
  let mut lines: Vec<String> = Vec::new();
  let mut extra_findings = 0u64;

  // a. the record layout the model assumes is the target's
  let lf = layout_facts();
  let layout_ok = lf.size == 24 && lf.off_type == 16 && lf.off_code == 18 && lf.off_value == 20 && lf.little_endian;
  if !layout_ok {
    let path = format!("{}/finding-layout.json", out_dir);
    let j = serde_json::json!({
      "suite": "bytes", "kind": "property", "properties": ["C18"], "check": "layout", "events": "-",
      "implementation": format!("size_of::<libc::input_event>()={} offsets type={} code={} value={} little_endian={}", lf.size, lf.off_type, lf.off_code, lf.off_value, lf.little_endian),
      "model": "size 24, type at 16, code at 18, value at 20, little-endian",
      "note": "struct input_event on this target is not the 24-byte little-endian record that send() serialises by hand and next() indexes by hand"
    });
    let _ = std::fs::write(&path, serde_json::to_string_pretty(&j).unwrap());
    lines.push(format!("FINDING kind=property properties=C18 replay={}", path));
    extra_findings += 1;
  }

  let known = crate::h_tables::all_key_codes();
  let mut is_known = vec![false; 65536];
  for k in &known { is_known[*k as i32 as u16 as usize] = true; }

  let mut cx = Ctx {
    lean: Lean::start(), rig: Rig::new(), cases: 0, records_written: 0, records_read: 0, foreign_records: 0,
    foreign_by_family: BTreeMap::new(), kernel_stamped_key_records: 0, distinct: HashSet::new(),
    divergences: 0, violations: 0, findings: Vec::new(), samples: Vec::new(), pending: Vec::new()
  };
  let mut rng = Rng::new(seed);

  // c. exhaustive: every known key code × {press, release}, one event per batch; the read side on the
  //    writer's own bytes and on a stream with foreign records around them
  let mut n_exh = 0u64;
  for (i, k) in known.iter().enumerate() {
    for press in [true, false].iter() {
      let ev = if *press { Event::Pressed(*k) } else { Event::Released(*k) };
      let sample = (i == 29 && *press) || ((*k as i32) == 464 && !*press);
      cx.case(&vec![ev], &mut rng, 2, &known, &is_known, sample);
      n_exh += 1;
    }
    if i % 64 == 63 { cx.sync(); }
  }
  // the empty batch
  cx.case(&vec![], &mut rng, 2, &known, &is_known, false);
  cx.sync();

  // c'. exhaustive read side: a key record for every u16 code × value {0, 1, 2}, in streams of 1024 records
  let mut sweep_streams = 0u64;
  for value in [1i32, 0, 2].iter() {
    for chunk in 0..64u32 {
      let mut stream = Vec::with_capacity(1024 * REC);
      let mut expect: Vec<Event> = Vec::new();
      for c in (chunk * 1024)..((chunk + 1) * 1024) {
        let (sec, usec) = if c % 3 == 0 { (0, 0) } else { (1_700_000_000 + c as i64, (c as i64 * 7919) % 1_000_000) };
        stream.extend(kernel_record(sec, usec, 1, c as u16, *value));
        if *value != 2 {
          if let Some(k) = <KeyCode as FromPrimitive>::from_u16(c as u16) {
            expect.push(if *value == 1 { Event::Pressed(k) } else { Event::Released(k) });
          }
        }
      }
      cx.cases += 1;
      sweep_streams += 1;
      cx.records_read += 1024;
      cx.note_distinct("sweep", &stream);
      let stream_hex = hex(&stream);
      cx.pending.push(("-".into(), "-".into(), "-".into()));
      let tag = (cx.pending.len() - 1) as u64;
      match cx.rig.read_all(&stream) {
        Ok(decoded) => {
          let dec_s = fmt::events(&decoded);
          cx.lean.expect(KIND_DEC, tag, format!("DEC {}", stream_hex), dec_s.clone());
          if decoded != expect {
            cx.finding(Finding { kind: "property", check: "read", events: fmt::events(&expect), written: "-".into(), stream: stream_hex, impl_says: dec_s, model_says: fmt::events(&expect), note: format!("code sweep {}..{} value {}: the reader must return exactly the records with a known code and value 0/1", chunk * 1024, (chunk + 1) * 1024, value) });
          }
        },
        Err(e) => cx.finding(Finding { kind: "divergence", check: "dec", events: "-".into(), written: "-".into(), stream: stream_hex, impl_says: e, model_says: fmt::events(&expect), note: "code sweep".into() })
      }
      if chunk % 8 == 7 { cx.sync(); }
    }
  }
  cx.sync();

  // d. seeded random batches, length 0..40 over all known codes, foreign records interleaved on the read side
  let n_random: u64 = opts.num("cases", if thorough { 40000 } else { 2000 });
  for i in 0..n_random {
    let evs = random_batch(&mut rng, &known);
    let per_gap = if i % 5 == 0 { 0 } else { 1 + rng.below(3) };
    cx.case(&evs, &mut rng, per_gap, &known, &is_known, i % 37 == 5);
    if i % 200 == 199 { cx.sync(); }
  }
  cx.sync();

  // e. knownCode against FromPrimitive::from_u16 for every u16 (0..=767 is the dense part)
  let mut n_known_reqs = 0u64;
  for c in 0..=65535u32 {
    let real = <KeyCode as FromPrimitive>::from_u16(c as u16).is_some();
    cx.lean.expect(KIND_KNOWN, c as u64, format!("KNOWN {}", c), (if real { "1" } else { "0" }).to_string());
    n_known_reqs += 1;
  }
  // above the u16 range the model must say "unknown" (the writer truncates with `as u16`, the reader cannot produce such a code)
  for c in [65536u64, 65536 + 30, 65536 + 464, 1 << 20, (1 << 32) + 30].iter() {
    cx.lean.expect(KIND_KNOWN, *c, format!("KNOWN {}", c), "0".to_string());
    n_known_reqs += 1;
  }
  cx.sync();

  let lean_requests = cx.lean.sent;
  let Ctx { lean, findings, samples, distinct, foreign_by_family, .. } = cx;
  lean.finish();

  // f. findings: concrete property violations first
  let mut findings = findings;
  findings.sort_by_key(|f| if f.kind == "property" { 0 } else { 1 });
  for (i, f) in findings.iter().enumerate() {
    let path = if i < MAX_REPLAYS {
      let p = format!("{}/finding-{}.json", out_dir, i);
      let _ = std::fs::write(&p, serde_json::to_string_pretty(&finding_json(f)).unwrap());
      p
    } else { "-".to_string() };
    if i < MAX_REPLAYS {
      if f.kind == "property" { lines.push(format!("FINDING kind=property properties=C18 replay={}", path)); }
      else { lines.push(format!("FINDING kind=divergence properties=- replay={}", path)); }
    }
  }
  for l in &lines { println!("{}", l); }

  let stats_json = serde_json::json!({
    "suite": "bytes", "seed": seed, "tier": if thorough { "thorough" } else { "quick" },
    "cases": cx_cases(n_exh, sweep_streams, n_random) ,
    "distinct_nontrivial": distinct.len(),
    "rule": RULE,
    "divergences": cx.divergences, "monitor_violations": cx.violations + extra_findings,
    "samples": samples,
    "exhaustive_codes": true, "key_codes": known.len(),
    "exhaustive_single_event_batches": n_exh, "code_sweep_streams": sweep_streams,
    "code_sweep": "type 1, every u16 code, values 1/0/2",
    "random_batches": n_random,
    "records_written_by_send": cx.records_written, "records_read_by_next": cx.records_read,
    "foreign_records": cx.foreign_records, "foreign_records_by_family": foreign_by_family,
    "kernel_stamped_key_records": cx.kernel_stamped_key_records,
    "known_code_requests": n_known_reqs, "lean_requests": lean_requests,
    "struct_input_event": { "size": lf.size, "offset_type": lf.off_type, "offset_code": lf.off_code, "offset_value": lf.off_value, "little_endian": lf.little_endian },
    "findings": cx.divergences + cx.violations + extra_findings, "replay_files": std::cmp::min(findings.len(), MAX_REPLAYS) as u64 + extra_findings
  });
  if let Some(p) = opts.get("stats") {
    std::fs::write(p, serde_json::to_string_pretty(&stats_json).unwrap()).unwrap();
  }
  println!("STATS {}", stats_json);
  if cx.divergences + cx.violations + extra_findings == 0 { 0 } else { 1 }
}

fn cx_cases(a: u64, b: u64, c: u64) -> u64 { a + 1 + b + c }

// ---- replay of one case ----
// File: JSON with "events" (protocol text) and optionally "stream" (hex of a read-side stream of
// whole records; "-" or absent = the writer's own bytes).  Prints what the implementation writes /
// reads and what the model says; exit 1 if they disagree or C18's statement fails.
pub fn replay(opts: &Opts) -> i32 {
  let path = match opts.get("file") { Some(p) => p, None => { eprintln!("--file required"); return 2; } };
  let text = std::fs::read_to_string(path).expect("cannot read replay file");
  let v: serde_json::Value = serde_json::from_str(&text).expect("replay file is not JSON");
  let lf = layout_facts();
  println!("struct input_event: size {} type@{} code@{} value@{} little_endian {}", lf.size, lf.off_type, lf.off_code, lf.off_value, lf.little_endian);
  let mut bad = 0;
  if !(lf.size == 24 && lf.off_type == 16 && lf.off_code == 18 && lf.off_value == 20 && lf.little_endian) {
    println!("layout: NOT the 24-byte little-endian record the code assumes");
    bad += 1;
  }
  if v["check"].as_str() == Some("layout") {
    if bad > 0 { println!("REPLAY: {} check(s) fail", bad); return 1; } else { println!("REPLAY: clean"); return 0; }
  }
  let mut lean = Lean::start();
  let mut rig = Rig::new();
  let evs_txt = v["events"].as_str().unwrap_or("-");
  let mut own_bytes: Option<Vec<u8>> = None;
  match fmt::parse_events(evs_txt) {
    Some(evs) if v["check"].as_str() != Some("known") => {
      match rig.send(&evs) {
        Ok(raw) => {
          println!("send [{}]: implementation writes {} bytes: {}", fmt::events_human(&evs), raw.len(), hex_records(&raw));
          let model = lean.ask(&format!("ENC {}", evs_txt));
          if model == hex(&raw) { println!("  model encodeBatch: agrees"); }
          else { println!("  model encodeBatch: DISAGREES: {}", model); bad += 1; }
          let mon = lean.ask(&format!("C18 {} {} -", evs_txt, hex(&raw)));
          println!("  C18 statement on the implementation's bytes: {}", mon);
          if mon != "ok" { bad += 1; }
          own_bytes = Some(raw);
        },
        Err(e) => { println!("send [{}]: {}", fmt::events_human(&evs), e); bad += 1; }
      }
    },
    _ => {}
  }
  let stream: Option<Vec<u8>> = match v["stream"].as_str() {
    Some(s) if s != "-" => unhex(s),
    _ => own_bytes.clone()
  };
  if let Some(stream) = stream {
    if stream.len() % REC != 0 || stream.len() >= 60000 { println!("read side skipped: stream is not a sequence of whole records below the pipe capacity"); }
    else {
      match rig.read_all(&stream) {
        Ok(decoded) => {
          println!("next() until EAGAIN on {} records: implementation returns [{}]", stream.len() / REC, fmt::events_human(&decoded));
          let model = lean.ask(&format!("DEC {}", hex(&stream)));
          if model == fmt::events(&decoded) { println!("  model decodeStream: agrees"); }
          else { println!("  model decodeStream: DISAGREES: {}", model); bad += 1; }
          if let Some(m) = v["model"].as_str() {
            if v["check"].as_str() == Some("read") {
              if m == fmt::events(&decoded) { println!("  expected events: returned"); } else { println!("  expected events {} NOT returned", m); bad += 1; }
            }
          }
        },
        Err(e) => { println!("next(): {}", e); bad += 1; }
      }
    }
  }
  if v["check"].as_str() == Some("known") {
    if let Some(c) = v["implementation"].as_str().and_then(|s| s.split(' ').nth(1)).and_then(|s| s.parse::<u32>().ok()) {
      let real = c < 65536 && <KeyCode as FromPrimitive>::from_u16(c as u16).is_some();
      let model = lean.ask(&format!("KNOWN {}", c));
      println!("code {}: from_u16 known = {}, model knownCode = {}", c, real, model);
      if (model == "1") != real { bad += 1; }
    }
  }
  lean.finish();
  if bad > 0 { println!("REPLAY: {} check(s) disagree with the model or violate C18", bad); 1 } else { println!("REPLAY: clean"); 0 }
}
