// Suite "escape": the systemd unit writer of src/udev_utils.rs against the Lean model
// (TmVerif/Model/Escape.lean), plus the executable statement of property C17 evaluated by the Lean
// driver on the *implementation's* unit text (command C17TEXT: locate the ExecStart line, read it
// back by the specification of systemd's command-line rules, compare with the intended arguments).
//
//   a. escape_one_char on EVERY Unicode scalar value            (model command ESC1)
//   b. build_service_text on generated pattern lists            (model command SVC)
//   c. C17 on the implementation's text for every generated list whose patterns are all
//      non-empty and NUL-free                                   (C17TEXT, expected "ok")
//   d. negative controls: deliberately mis-escaped unit texts must be answered "viol"
//
// Strings travel as lower-case hex code points joined by '.', "-" = empty string; lists of strings
// joined by ',', "~" = empty list (see TmVerif/Driver/EscapeCmd.lean).

use crate::h_util::{Opts, Rng};
use crate::h_lean::Lean;
use crate::udev_utils::verif::{build_service_text, escape_one_char};
use std::collections::HashSet;

const KIND_ESC1: u8 = 1;
const KIND_SVC: u8 = 2;
const KIND_C17: u8 = 3;
const KIND_NEG: u8 = 4;

const MAX_REPLAYS: usize = 20;

pub fn enc_str(s: &str) -> String {
  if s.is_empty() { return "-".to_string(); }
  let mut out = String::with_capacity(s.len() * 3);
  for (i, c) in s.chars().enumerate() {
    if i > 0 { out.push('.'); }
    out.push_str(&format!("{:x}", c as u32));
  }
  out
}

pub fn enc_list(l: &[String]) -> String {
  if l.is_empty() { return "~".to_string(); }
  l.iter().map(|s| enc_str(s)).collect::<Vec<_>>().join(",")
}

pub fn dec_str(s: &str) -> Option<String> {
  if s == "-" { return Some(String::new()); }
  let mut out = String::new();
  for t in s.split('.') {
    out.push(char::from_u32(u32::from_str_radix(t, 16).ok()?)?);
  }
  Some(out)
}

fn readable(reply: &str) -> String {
  match dec_str(reply) { Some(s) => s, None => format!("<{}>", reply) }
}

// Characters with a meaning for the escaper, for systemd's parser, or for neither (controls of the
// generic branches and ordinary characters, including those that spell an escape after a backslash).
fn relevant_chars() -> Vec<char> {
  let mut v: Vec<char> = "\\'\" \t\n\r%$;*?{}a0_I-/#~=@:!+xuUsnbtf37.,<>|&()[]`^".chars().collect();
  v.extend_from_slice(&[
    '\u{1}', '\u{7}', '\u{8}', '\u{b}', '\u{c}', '\u{1b}', '\u{1f}', '\u{7f}', '\u{80}', '\u{85}', '\u{9f}',
    '\u{a0}', '\u{e9}', '\u{2028}', '\u{d7ff}', '\u{e000}', '\u{feff}', '\u{ffff}', '\u{10000}', '\u{1f600}', '\u{10ffff}'
  ]);
  v
}

fn random_char(rng: &mut Rng, rel: &[char], allow_nul: bool) -> char {
  if rng.chance(70, 100) { return *rng.pick(rel); }
  loop {
    let cp: u32 = match rng.below(4) {
      0 => 0x20 + rng.below(0x5f) as u32,
      1 => rng.below(0x100) as u32,
      2 => rng.below(0x3000) as u32,
      _ => rng.below(0x110000) as u32
    };
    if cp == 0 && !allow_nul { continue; }
    if let Some(c) = char::from_u32(cp) { return c; }
  }
}

fn random_pattern(rng: &mut Rng, rel: &[char]) -> String {
  // ~2%: a pattern outside the property's quantifier (empty, or containing NUL); the escaper is still compared
  if rng.chance(1, 100) { return String::new(); }
  let with_nul = rng.chance(1, 100);
  let n = rng.range(1, 12);
  let mut s = String::new();
  for _ in 0..n { s.push(random_char(rng, rel, false)); }
  if with_nul { s.push('\0'); if rng.chance(1, 2) { s.push(random_char(rng, rel, false)); } }
  s
}

const INSTANCES: [&str; 6] = ["input/event3", "input/event17", "input/by-id/usb-Foo_Bar-event-kbd", "x", "we ird%I\\x41'", "é/\u{1f600}"];

fn in_quantifier(patterns: &[String]) -> bool {
  patterns.iter().all(|p| !p.is_empty() && !p.contains('\0'))
}

fn changes(c: char) -> bool {
  let mut b = [0u8; 4];
  escape_one_char(c) != *c.encode_utf8(&mut b)
}

struct Case {
  patterns: Vec<String>,
  instance: String,
  text: String
}

struct Finding {
  kind: &'static str,          // "divergence" | "property" | "selfcheck"
  patterns: Vec<String>,
  instance: String,
  request: String,
  implementation: String,
  model: String
}

fn finding_json(f: &Finding) -> serde_json::Value {
  serde_json::json!({
    "suite": "escape",
    "kind": f.kind,
    "properties": if f.kind == "divergence" { vec![] } else { vec!["C17"] },
    "patterns": f.patterns,
    "instance": f.instance,
    "request": f.request,
    "implementation": f.implementation,
    "model": f.model
  })
}

fn service_text(patterns: &[String]) -> String {
  build_service_text(patterns.iter().map(|s| s.as_str()))
}

// unit texts that must NOT satisfy the statement (the checker is not vacuous)
fn negative_controls() -> Vec<(Vec<String>, String, &'static str)> {
  let line = |excl: &str| format!(
    "[Unit]\nDescription=Totalmapper\n\n[Service]\nType=simple\nUser=totalmapper\nGroup=input\nExecStart=/usr/bin/totalmapper remap --verbose --layout-file /etc/totalmapper.json --only-if-keyboard {} --dev-file /%I\n", excl);
  let p = |s: &str| vec![s.to_string()];
  vec![
    (p("a'b"), line("--exclude a'b"), "apostrophe written bare (the escaper before the fix)"),
    (p("a'b'c"), line("--exclude a'b'c"), "two bare apostrophes: quotes silently removed"),
    (p("50%"), line("--exclude 50%"), "percent sign not doubled"),
    (p("%I"), line("--exclude %I"), "specifier expanded inside a pattern"),
    (p("$HOME"), line("--exclude $HOME"), "dollar sign not doubled"),
    (p(";"), line("--exclude ;"), "lone semicolon"),
    (p("x y"), line("--exclude x y"), "space not escaped"),
    (p("a\nb"), line("--exclude a\nb"), "raw newline ends the line"),
    (p("a\\"), line("--exclude a\\"), "backslash not doubled"),
    (p("\u{1b}"), line("--exclude \\x1B\\x00"), "extra NUL escape"),
    (p("a"), line("--exclude a --exclude b"), "an extra pattern"),
    (p("a"), line("--exclude b"), "a different pattern"),
    (p("a"), line("").replace("--only-if-keyboard", "--only-if-keybord"), "surrounding argument damaged and pattern lost"),
    (vec![String::new()], service_text(&[String::new()]), "empty pattern (outside the property): the argument disappears")
  ]
}

pub fn run(opts: &Opts) -> i32 {
  let seed = opts.num("seed", 1);
  let thorough = opts.thorough();
  let out_dir = opts.get_or("out", "/verif/harness/tmp/escape").to_string();
  let _ = std::fs::create_dir_all(&out_dir);
  let mut rng = Rng::new(seed);
  let rel = relevant_chars();
  let mut lean = Lean::start();
  let mut findings: Vec<Finding> = Vec::new();
  let mut divergences = 0u64;
  let mut monitor_violations = 0u64;
  let mut selfcheck_failures = 0u64;
  let mut samples: Vec<String> = Vec::new();

  // ---- a. escape_one_char on every scalar value ----
  let mut esc1 = 0u64;
  let mut changed_chars = 0u64;
  for cp in 0u32..=0x10FFFF {
    let c = match char::from_u32(cp) { Some(c) => c, None => continue };
    let real = escape_one_char(c);
    if changes(c) { changed_chars += 1; }
    lean.expect(KIND_ESC1, cp as u64, format!("ESC1 {}", cp), enc_str(&real));
    esc1 += 1;
  }
  // surrogates are not scalar values: the model must refuse them (protocol sanity)
  lean.expect(KIND_ESC1, 0xD800, "ESC1 55296".to_string(), "invalid".to_string());
  {
    let (n, ms) = lean.sync();
    divergences += n;   // every disagreement of this batch is an escaper divergence
    for m in ms {
      let c = char::from_u32(m.tag as u32).map(|c| c.to_string()).unwrap_or_default();
      findings.push(Finding { kind: "divergence", patterns: vec![c], instance: String::new(), request: m.req.clone(), implementation: readable(&m.expected), model: readable(&m.got) });
    }
  }

  // ---- b./c. pattern lists ----
  let mut lists: Vec<Vec<String>> = Vec::new();
  lists.push(vec![]);
  lists.push(vec!["*Mouse*".to_string(), "*Switch*".to_string()]);   // the repository's own test
  lists.push(vec!["Dell Mouse".to_string()]);
  lists.push(["*Mouse*", "a'b", "50%", "$HOME", ";", "x y", "\u{1b}[0m"].iter().map(|s| s.to_string()).collect());
  for &c in &rel { lists.push(vec![c.to_string()]); }
  lists.push(vec!["\0".to_string()]);
  lists.push(vec![String::new()]);
  for &a in &rel { for &b in &rel { lists.push(vec![format!("{}{}", a, b)]); } }
  let n_single = if thorough { 60000 } else { 3000 };
  let n_multi = if thorough { 40000 } else { 2000 };
  let mut r1 = rng.fork(1);
  for _ in 0..n_single { lists.push(vec![random_pattern(&mut r1, &rel)]); }
  let mut r2 = rng.fork(2);
  for _ in 0..n_multi {
    let k = r2.range(0, 4);
    lists.push((0..k).map(|_| random_pattern(&mut r2, &rel)).collect());
  }

  // related lists: patterns that repeat, subsume, prefix or glob-match one another (a list-level "tidy-up" --
  // dropping duplicates, dropping a pattern that an earlier glob matches, sorting -- changes only these)
  let mut r3 = rng.fork(3);
  let names = ["Dell Mouse", "Dell *", "Logitech K120", "AT Translated Set 2 keyboard", "Mouse*", "*Switch*", "gpio-keys", "a", "ab", "x y", "50%", "$HOME"];
  let n_related = if thorough { 8000 } else { 800 };
  for _ in 0..n_related {
    let base: String = if r3.chance(3, 4) { r3.pick(&names).to_string() } else { random_pattern(&mut r3, &rel) };
    let chars: Vec<char> = base.chars().collect();
    let mut variants: Vec<String> = vec![base.clone(), base.clone(), "*".to_string(), "?".repeat(chars.len().max(1)), format!("{}*", base), format!("*{}", base), base.to_uppercase()];
    if !chars.is_empty() {
      let i = r3.below(chars.len());
      let mut q = chars.clone(); q[i] = '?'; variants.push(q.iter().collect());
      let mut w = chars.clone(); w[i] = '*'; variants.push(w.iter().collect());
      variants.push(chars[..i].iter().collect::<String>() + "*");
      variants.push(chars[i..].iter().collect());
    }
    variants.retain(|v| !v.is_empty());
    let k = r3.range(2, 5);
    lists.push((0..k).map(|_| r3.pick(&variants).clone()).collect());
  }

  // template-like patterns: if the unit text is ever assembled by textual substitution, a pattern that looks like a
  // placeholder (or like a piece of the fixed text) must still arrive unchanged
  {
    let names = ["EXCLUDES", "EXCLUDE", "EXCLUDE_ARGS", "BIN", "BINARY", "LAYOUT", "LAYOUT_FILE", "DEV", "DEVICE", "INSTANCE", "ARGS", "PATTERN", "0", "1", ""];
    let mut r4 = rng.fork(4);
    let mut tl: Vec<String> = Vec::new();
    for n in names.iter() {
      for (a, b) in [("@", "@"), ("{", "}"), ("{{", "}}"), ("${", "}"), ("%", "%"), ("$", ""), ("<", ">"), ("[[", "]]"), ("__", "__"), ("%(", ")s")].iter() {
        tl.push(format!("{}{}{}", a, n, b));
        tl.push(format!("{}{}{}", a, n.to_lowercase(), b));
      }
    }
    for w in ["/usr/bin/totalmapper", "/etc/totalmapper.json", "--exclude", "--dev-file", "--only-if-keyboard", "/%I", "%I", "ExecStart=", "remap", "--layout-file"].iter() { tl.push(w.to_string()); }
    for t in &tl { lists.push(vec![t.clone()]); lists.push(vec![format!("x{}y", t)]); }
    for _ in 0..(if thorough { 3000 } else { 300 }) {
      let k = r4.range(2, 4);
      lists.push((0..k).map(|_| if r4.chance(2, 3) { r4.pick(&tl).clone() } else { random_pattern(&mut r4, &rel) }).collect());
    }
  }

  let mut cases: Vec<Case> = Vec::with_capacity(lists.len());
  let mut svc = 0u64;
  let mut c17 = 0u64;
  let mut outside = 0u64;
  let mut distinct: HashSet<String> = HashSet::new();
  let mut distinct_nontrivial: HashSet<String> = HashSet::new();
  let mut r3 = rng.fork(3);
  for (i, patterns) in lists.into_iter().enumerate() {
    let instance = INSTANCES[if i < 8 { 0 } else { r3.below(INSTANCES.len()) }].to_string();
    let text = service_text(&patterns);
    let l = enc_list(&patterns);
    lean.expect(KIND_SVC, i as u64, format!("SVC {}", l), enc_str(&text));
    svc += 1;
    if in_quantifier(&patterns) {
      lean.expect(KIND_C17, i as u64, format!("C17TEXT {} {} {}", enc_str(&text), l, enc_str(&instance)), "ok".to_string());
      c17 += 1;
      for p in &patterns {
        if distinct.insert(p.clone()) && p.chars().any(changes) { distinct_nontrivial.insert(p.clone()); }
      }
    }
    else { outside += 1; }
    if samples.len() < 6 && (i == 1 || i == 3 || (patterns.len() >= 2 && i % 97 == 0 && in_quantifier(&patterns))) {
      let line = text.lines().find(|l| l.starts_with("ExecStart=")).unwrap_or("").to_string();
      samples.push(format!("patterns {:?} instance {:?} -> {}", patterns, instance, line));
    }
    cases.push(Case { patterns, instance, text });
  }
  let mut beyond_kept = 0u64;
  {
    // the driver connection keeps the first 50 disagreements of a batch; the rest is only counted
    let (n, ms) = lean.sync();
    beyond_kept += n - ms.len() as u64;
    for m in ms {
      let c = &cases[m.tag as usize];
      if m.kind == KIND_SVC {
        divergences += 1;
        findings.push(Finding { kind: "divergence", patterns: c.patterns.clone(), instance: c.instance.clone(), request: "SVC".to_string(), implementation: c.text.clone(), model: readable(&m.got) });
      }
      else {
        monitor_violations += 1;
        findings.push(Finding { kind: "property", patterns: c.patterns.clone(), instance: c.instance.clone(), request: "C17TEXT".to_string(), implementation: c.text.clone(), model: m.got.clone() });
      }
    }
  }

  // ---- d. negative controls ----
  let negs = negative_controls();
  for (i, (patterns, text, _)) in negs.iter().enumerate() {
    lean.expect(KIND_NEG, i as u64, format!("C17TEXT {} {} {}", enc_str(text), enc_list(patterns), enc_str("input/event3")), "viol".to_string());
  }
  {
    let (n, ms) = lean.sync();
    selfcheck_failures += n;
    for m in ms {
      let (patterns, text, what) = &negs[m.tag as usize];
      findings.push(Finding { kind: "selfcheck", patterns: patterns.clone(), instance: "input/event3".to_string(), request: format!("negative control: {}", what), implementation: text.clone(), model: m.got.clone() });
    }
  }
  let requests = lean.sent;
  lean.finish();

  // concrete property violations first, at most MAX_REPLAYS/2 divergences
  findings.sort_by_key(|f| match f.kind { "property" => 0, "divergence" => 1, _ => 2 });
  let n_prop = findings.iter().filter(|f| f.kind == "property").count();
  if n_prop > MAX_REPLAYS / 2 {
    let mut keep = Vec::new();
    let mut seen_prop = 0;
    for f in findings.drain(..) { if f.kind == "property" { seen_prop += 1; if seen_prop > MAX_REPLAYS / 2 { continue; } } keep.push(f); }
    findings = keep;
  }
  for (i, f) in findings.iter().enumerate() {
    if i >= MAX_REPLAYS { break; }
    let path = format!("{}/finding_{}_{}.json", out_dir, seed, i);
    std::fs::write(&path, serde_json::to_string_pretty(&finding_json(f)).unwrap()).unwrap();
    match f.kind {
      "divergence" => println!("FINDING kind=divergence properties=- replay={}", path),
      "property" => println!("FINDING kind=property properties=C17 replay={}", path),
      _ => println!("FINDING kind=selfcheck properties=C17 replay={}", path)
    }
  }

  let stats_json = serde_json::json!({
    "suite": "escape", "seed": seed, "tier": if thorough { "thorough" } else { "quick" },
    "cases": esc1 + svc + c17,
    "escape_one_char_comparisons": esc1,
    "exhaustive_single_chars": true,
    "scalar_values_the_escaper_changes": changed_chars,
    "service_text_comparisons": svc,
    "c17_checks_on_implementation_output": c17,
    "lists_outside_the_quantifier_escaper_only": outside,
    "distinct_patterns": distinct.len(),
    "distinct_nontrivial": distinct_nontrivial.len(),
    "negative_controls": negs.len(),
    "negative_controls_wrongly_accepted": selfcheck_failures,
    "rule": "a: escape_one_char vs model on every Unicode scalar value. b: build_service_text vs model on pattern lists = fixed examples + every 1- and 2-character pattern over the syntax-relevant set (quotes, backslash, blanks, % $ ; * ?, braces, escape-spelling letters, C0/C1 controls, DEL, non-ASCII up to U+10FFFF) + seeded random patterns (length 1..12, each character 70% from that set, else a random scalar value) singly and in lists of 0..4. c: for every list whose patterns are all non-empty and NUL-free the Lean driver reads the implementation's unit text back (C17TEXT) and must find exactly the intended arguments. A pattern counts as non-trivial if it contains at least one character that escape_one_char does not copy verbatim; distinct_nontrivial counts distinct such pattern strings among the C17 checks. d: hand-made mis-escaped unit texts must be rejected.",
    "divergences": divergences,
    "monitor_violations": monitor_violations,
    "further_disagreements_not_classified": beyond_kept,
    "lean_requests": requests,
    "samples": samples,
    "findings": findings.len()
  });
  if let Some(p) = opts.get("stats") {
    std::fs::write(p, serde_json::to_string_pretty(&stats_json).unwrap()).unwrap();
  }
  println!("STATS {}", stats_json);
  if findings.is_empty() { 0 } else { 1 }
}

// ---- replay of one case on the current tree ----
// File: JSON with "patterns" (list of strings) and "instance" (string, optional).
// Prints the implementation's ExecStart line, whether the model writes the same unit, what the
// specification of systemd reads back, and the C17 verdict.  Exit 1 on disagreement or violation.
pub fn replay(opts: &Opts) -> i32 {
  let path = match opts.get("file") { Some(p) => p, None => { eprintln!("--file required"); return 2; } };
  let text = std::fs::read_to_string(path).expect("cannot read replay file");
  let v: serde_json::Value = serde_json::from_str(&text).expect("replay file is not JSON");
  let patterns: Vec<String> = v["patterns"].as_array().expect("patterns").iter().map(|x| x.as_str().expect("pattern string").to_string()).collect();
  let instance = v["instance"].as_str().filter(|s| !s.is_empty()).unwrap_or("input/event3").to_string();
  let mut lean = Lean::start();
  let unit = service_text(&patterns);
  let line = unit.lines().find(|l| l.starts_with("ExecStart=")).unwrap_or("").to_string();
  println!("patterns: {:?}", patterns);
  println!("instance: {:?}", instance);
  println!("implementation writes: {}", line);
  let mut bad = 0;
  let model = lean.ask(&format!("SVC {}", enc_list(&patterns)));
  if model == enc_str(&unit) { println!("model: writes the same unit text"); }
  else { println!("model: DISAGREES, writes {:?}", readable(&model)); bad += 1; }
  let value = line.strip_prefix("ExecStart=").unwrap_or("");
  let parsed = lean.ask(&format!("PARSE {} {}", enc_str(value), enc_str(&instance)));
  if parsed == "none" { println!("systemd (specification) reads back: <not a command line it accepts / outside the documented fragment>"); }
  else {
    let words: Vec<String> = if parsed == "~" { vec![] } else { parsed.split(',').map(readable).collect() };
    println!("systemd (specification) reads back: {:?}", words);
  }
  if in_quantifier(&patterns) {
    let verdict = lean.ask(&format!("C17TEXT {} {} {}", enc_str(&unit), enc_list(&patterns), enc_str(&instance)));
    println!("C17 on the implementation's unit text: {}", verdict);
    if verdict != "ok" { bad += 1; }
  }
  else {
    println!("C17: not applicable (an empty pattern or a pattern containing NUL is outside the property)");
  }
  lean.finish();
  if bad > 0 { println!("REPLAY: {} problem(s)", bad); 1 } else { println!("REPLAY: clean"); 0 }
}
