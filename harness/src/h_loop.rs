// Suite S-loop: the real per-device loop (`do_remapping_loop_one_device`, through the verif adapter)
// runs against a scripted environment (edge-triggered readiness over FIFO device queues, arrivals
// between any two driver calls, spurious time-outs, interruptions, device-gone, injected failures);
// the recorded transcript (calls and answers) is replayed on the Lean loop model, which must make
// the same calls, and the transcript monitors of C10/C11/C12/C20 are evaluated on it.

use crate::keys::{Event, KeyCode, Layout, Repeat};
use crate::remapping_loop::verif::{ScriptedDevice, ScriptedDriver, ScriptedNext, ScriptedPoll, ScriptedTablet, run_one_device};
use crate::h_util::{Opts, Rng};
use crate::h_lean::Lean;
use crate::h_fmt as fmt;
use crate::h_layouts::{self, Flavor};
use std::collections::VecDeque;
use std::panic::{catch_unwind, AssertUnwindSafe};
use std::time::{Duration, Instant};

#[derive(Clone, Debug)]
pub enum Move {
  Kbd(Vec<Event>),        // a batch of keyboard events arrives
  Tab(Vec<bool>),         // tablet switch events arrive (true = On)
  Timer,                  // let a pending poll time out (a real short sleep first if `late`)
  TimerLate,
  Spurious,               // poll returns TimedOut although nothing is due
  Interrupt,              // poll returns Interrupted
  Gone                    // the keyboard device disappears (End once its queue is drained)
}

pub struct Env {
  kbd: VecDeque<Event>,
  kbd_flag: bool,
  kbd_gone: bool,
  tab: VecDeque<bool>,
  tab_flag: bool,
  schedule: VecDeque<Move>,
  rng: Rng,
  t0: Instant,
  last_return: u64,
  pub max_gap: u64,
  pub calls: Vec<String>,
  pub script: Vec<String>,
  pub moves: Vec<String>,        // arrivals and answers in the order they happened (request ENVCHK)
  pub fail_at: Option<usize>,
  pub calls_after_failure: usize,
  failed: bool,
  pub polls_with_unread: usize,   // C10 (direct): poll entered while a queue is non-empty and its flag is clear
  has_tablet: bool
}

impl Env {
  pub fn new(schedule: Vec<Move>, seed: u64, fail_at: Option<usize>, has_tablet: bool) -> Env {
    Env {
      kbd: VecDeque::new(), kbd_flag: false, kbd_gone: false, tab: VecDeque::new(), tab_flag: false,
      schedule: schedule.into_iter().collect(), rng: Rng::new(seed), t0: Instant::now(), last_return: 0, max_gap: 0,
      calls: Vec::new(), script: Vec::new(), moves: Vec::new(), fail_at, calls_after_failure: 0, failed: false, polls_with_unread: 0, has_tablet
    }
  }

  fn now_ns(&self) -> u64 { self.t0.elapsed().as_nanos() as u64 }

  // at the entry of every driver call: measure the gap, let the environment move
  fn enter(&mut self, call: String, is_poll: bool) -> Option<String> {
    let t = self.now_ns();
    if !self.calls.is_empty() { let gap = t.saturating_sub(self.last_return); if gap > self.max_gap { self.max_gap = gap; } }
    if self.failed { self.calls_after_failure += 1; }
    // arrivals between any two driver calls (not only while the loop waits)
    if !is_poll && self.rng.chance(1, 4) { self.apply_arrivals(1); }
    self.calls.push(call);
    if let Some(k) = self.fail_at {
      if self.calls.len() - 1 == k {
        self.failed = true;
        let msg = format!("injected failure at call {}", k);
        self.leave(format!("e:{}", hex(&msg)));
        return Some(msg);
      }
    }
    None
  }

  fn leave(&mut self, resp: String) {
    let t = self.now_ns();
    self.last_return = t;
    self.script.push(format!("{}@{}", resp, t));
    self.moves.push(format!("{}@{}", resp, t));
  }

  fn log_arrival(&mut self, m: &Move) {
    match m {
      Move::Kbd(evs) => self.moves.push(format!("Ak:{}", if evs.is_empty() { "-".to_string() } else { evs.iter().map(|e| fmt::event(e)).collect::<Vec<_>>().join(".") })),
      Move::Tab(evs) => if self.has_tablet { self.moves.push(format!("At:{}", if evs.is_empty() { "-".to_string() } else { evs.iter().map(|on| if *on { "On" } else { "Off" }).collect::<Vec<_>>().join(".") })) },
      Move::Gone => self.moves.push("Ag".to_string()),
      _ => ()
    }
  }

  // deliver up to n pending arrival moves from the head of the schedule
  fn apply_arrivals(&mut self, n: usize) {
    for _ in 0..n {
      match self.schedule.front() {
        Some(Move::Kbd(_)) | Some(Move::Tab(_)) | Some(Move::Gone) => {
          let mv = self.schedule.pop_front().unwrap();
          self.log_arrival(&mv);
          match mv {
            Move::Kbd(evs) => { for e in evs { self.kbd.push_back(e); } self.kbd_flag = true; },
            Move::Tab(evs) => { if self.has_tablet { for e in evs { self.tab.push_back(e); } self.tab_flag = true; } },
            Move::Gone => { self.kbd_gone = true; self.kbd_flag = true; },
            _ => ()
          }
        },
        _ => return
      }
    }
  }
}

pub fn hex(s: &str) -> String { s.bytes().map(|b| format!("{:02x}", b)).collect() }

impl ScriptedDriver for Env {
  fn register_poll(&mut self) -> Result<(), String> {
    if let Some(m) = self.enter("reg".to_string(), false) { return Err(m); }
    self.leave("u".to_string());
    Ok(())
  }

  fn poll(&mut self, timeout: Option<Duration>) -> Result<ScriptedPoll, String> {
    let call = match timeout { None => "poll:-".to_string(), Some(d) => format!("poll:{}", d.as_nanos()) };
    if let Some(m) = self.enter(call, true) { return Err(m); }
    if (!self.kbd.is_empty() && !self.kbd_flag) || (!self.tab.is_empty() && !self.tab_flag) { self.polls_with_unread += 1; }
    loop {
      if self.kbd_flag || self.tab_flag {
        let mut devs = Vec::new();
        if self.kbd_flag { devs.push(ScriptedDevice::Keyboard); }
        if self.tab_flag { devs.push(ScriptedDevice::Tablet); }
        if devs.len() == 2 && self.rng.chance(1, 2) { devs.reverse(); }
        self.kbd_flag = false;
        self.tab_flag = false;
        let txt: Vec<&str> = devs.iter().map(|d| match d { ScriptedDevice::Keyboard => "k", ScriptedDevice::Tablet => "t" }).collect();
        self.leave(format!("pD:{}", txt.join(".")));
        return Ok(ScriptedPoll::DeviceEvent(devs));
      }
      let mv = self.schedule.pop_front();
      match &mv { None => self.moves.push("Ag".to_string()), Some(m) => { let m2 = m.clone(); self.log_arrival(&m2); } }
      match mv {
        None => { self.kbd_gone = true; self.kbd_flag = true; },
        Some(Move::Kbd(evs)) => { for e in evs { self.kbd.push_back(e); } self.kbd_flag = true; },
        Some(Move::Tab(evs)) => { if self.has_tablet { for e in evs { self.tab.push_back(e); } self.tab_flag = true; } },
        Some(Move::Gone) => { self.kbd_gone = true; self.kbd_flag = true; },
        Some(Move::Interrupt) => { self.leave("pI".to_string()); return Ok(ScriptedPoll::Interrupted); },
        Some(Move::Spurious) => { self.leave("pT".to_string()); return Ok(ScriptedPoll::TimedOut); },
        Some(Move::Timer) => { if timeout.is_some() { self.leave("pT".to_string()); return Ok(ScriptedPoll::TimedOut); } },
        Some(Move::TimerLate) => {
          if let Some(d) = timeout {
            // really wait past the deadline (bounded), so that the next timeout computation sees now >= next_wakeup
            let wait = std::cmp::min(d, Duration::from_millis(40)) + Duration::from_millis(2);
            std::thread::sleep(wait);
            self.leave("pT".to_string());
            return Ok(ScriptedPoll::TimedOut);
          }
        }
      }
    }
  }

  fn next_keyboard(&mut self) -> Result<ScriptedNext<Event>, String> {
    if let Some(m) = self.enter("nk".to_string(), false) { return Err(m); }
    match self.kbd.pop_front() {
      Some(e) => { self.leave(format!("k{}", fmt::event(&e))); Ok(ScriptedNext::One(e)) },
      None => {
        if self.kbd_gone { self.leave("kE".to_string()); Ok(ScriptedNext::End) }
        else { self.leave("kB".to_string()); Ok(ScriptedNext::Busy) }
      }
    }
  }

  fn next_tablet(&mut self) -> Result<ScriptedNext<ScriptedTablet>, String> {
    if let Some(m) = self.enter("nt".to_string(), false) { return Err(m); }
    match self.tab.pop_front() {
      Some(on) => { self.leave((if on { "tOn" } else { "tOff" }).to_string()); Ok(ScriptedNext::One(if on { ScriptedTablet::On } else { ScriptedTablet::Off })) },
      None => { self.leave("tB".to_string()); Ok(ScriptedNext::Busy) }
    }
  }

  fn send(&mut self, evs: &Vec<Event>) -> Result<(), String> {
    if let Some(m) = self.enter(format!("send:{}", fmt::events(evs)), false) { return Err(m); }
    self.leave("u".to_string());
    Ok(())
  }
}

pub struct RunResult {
  pub calls: Vec<String>,
  pub script: Vec<String>,
  pub moves: Vec<String>,
  pub status: String,
  pub tol: u64,
  pub calls_after_failure: usize,
  pub polls_with_unread: usize
}

pub fn run_real(layout: &Layout, schedule: &[Move], seed: u64, fail_at: Option<usize>, has_tablet: bool) -> RunResult {
  let mut env = Env::new(schedule.to_vec(), seed, fail_at, has_tablet);
  let l = layout.clone();
  let res = catch_unwind(AssertUnwindSafe(|| run_one_device(&mut env, l)));
  let status = match res {
    Err(_) => "panic".to_string(),
    Ok(Ok(())) => "ok".to_string(),
    Ok(Err(msg)) => format!("err:{}", hex(&msg))
  };
  RunResult { calls: env.calls.clone(), script: env.script.clone(), moves: env.moves.clone(), status, tol: env.max_gap + 2000, calls_after_failure: env.calls_after_failure, polls_with_unread: env.polls_with_unread }
}

fn random_history(rng: &mut Rng, alphabet: &[KeyCode], len: usize) -> Vec<Event> {
  let mut held: Vec<KeyCode> = Vec::new();
  let mut h = Vec::new();
  for _ in 0..len {
    let k = *rng.pick(alphabet);
    let ill = rng.chance(1, 10);
    if held.contains(&k) != ill {
      h.push(Event::Released(k));
      held.retain(|x| *x != k);
    }
    else {
      h.push(Event::Pressed(k));
      if !held.contains(&k) { held.push(k); }
    }
  }
  h
}

// a schedule delivering `history` in random batches, with timer ticks, spurious time-outs,
// interruptions and tablet events sprinkled in
// `allow_double_interrupt`: two interruptions without a device event in between make the real loop
// really sleep for 4 s (thread::sleep is not behind the Driver trait) — thorough tier only, rarely.
fn random_schedule(rng: &mut Rng, history: &[Event], tablet: bool, allow_double_interrupt: bool) -> Vec<Move> {
  let mut s = Vec::new();
  let mut i = 0;
  let mut interrupted_since_batch;
  while i < history.len() {
    let n = match rng.below(6) { 0..=2 => 1, 3 => 2, 4 => 3, _ => rng.range(1, 5) };
    let j = std::cmp::min(history.len(), i + n);
    s.push(Move::Kbd(history[i..j].to_vec()));
    interrupted_since_batch = false;
    i = j;
    let extras = rng.below(4);
    for _ in 0..extras {
      match rng.below(16) {
        0..=6 => s.push(Move::Timer),
        7 => s.push(Move::TimerLate),
        8..=9 => s.push(Move::Spurious),
        10..=11 => { if !interrupted_since_batch || allow_double_interrupt { s.push(Move::Interrupt); interrupted_since_batch = true; } },
        12..=14 => { if tablet { let n = rng.range(1, 2); s.push(Move::Tab((0..n).map(|_| rng.chance(1, 2)).collect())); } },
        _ => ()
      }
    }
  }
  if rng.chance(1, 3) { s.push(Move::Gone); }
  s
}

pub fn layout_sources(opts: &Opts, rng: &mut Rng) -> Vec<(String, Layout, Vec<KeyCode>)> {
  let mut res = Vec::new();
  for (name, l) in h_layouts::corpus_layouts().into_iter().chain(h_layouts::readme_layouts()).chain(h_layouts::builtin_layouts()) {
    for a in h_layouts::alphabets_for(&l, rng, 3, 6) { res.push((name.clone(), l.clone(), a)); }
  }
  let n = opts.num("random", if opts.thorough() { 1000 } else { 150 });
  for i in 0..n {
    let mut l = h_layouts::random_layout(rng, if i % 3 == 0 { Flavor::Absorbing } else { Flavor::Plain });
    // make Special repeats frequent: they are what the timer is about
    if rng.chance(2, 3) {
      if let Some(m) = l.mappings.get_mut(0) {
        let nk = rng.below(3);
        let mut keys = Vec::new();
        for k in [KeyCode::X, KeyCode::LEFTCTRL, KeyCode::F20, KeyCode::A, KeyCode::LEFTSHIFT].iter() { if keys.len() < nk && rng.chance(1, 2) { keys.push(*k); } }
        m.repeat = Repeat::Special { keys: keys.clone(), delay_ms: [0, 1, 130, 180][rng.below(4)], interval_ms: [0, 1, 30][rng.below(3)] };
        // sometimes a second Special mapping with the SAME repeat keys but its own delay / interval
        if l.mappings.len() >= 2 && rng.chance(1, 2) {
          l.mappings[1].repeat = Repeat::Special { keys, delay_ms: [200, 90, 1][rng.below(3)], interval_ms: [50, 7][rng.below(2)] };
        }
      }
    }
    let a = h_layouts::alphabets_for(&l, rng, 1, 8).remove(0);
    res.push((format!("random:{}", i), l, a));
  }
  res
}

pub fn run(opts: &Opts) -> i32 {
  let seed = opts.num("seed", 1);
  let thorough = opts.thorough();
  let mut rng = Rng::new(seed ^ 0x100);
  let out_dir = opts.get_or("out", "/verif/harness/tmp/loop").to_string();
  let _ = std::fs::create_dir_all(&out_dir);
  let sources = layout_sources(opts, &mut rng);
  let per_layout = opts.num("schedules", if thorough { 40 } else { 12 }) as usize;
  let mut lean = Lean::start();

  let mut cases = 0u64;
  let mut fault_cases = 0u64;
  let mut total_calls = 0u64;
  let mut chord_sends = 0u64;
  let mut tablet_events = 0u64;
  let mut interrupted = 0u64;
  let mut multi_batch = 0u64;
  let mut late_timers = 0u64;
  let mut ends = 0u64;
  let mut findings: Vec<serde_json::Value> = Vec::new();
  let mut samples: Vec<String> = Vec::new();
  let mut distinct: std::collections::HashSet<String> = std::collections::HashSet::new();
  let mut divergences = 0u64;
  let mut monitor_violations = 0u64;
  let mut env_checked = 0u64;
  let mut loose_runs = 0u64;     // runs whose measured gap (the tolerance of the timeout comparison) exceeds 1 ms
  let mut env_negative_done = false;

  struct Pending { layout: String, layout_json: serde_json::Value, schedule: String, fail_at: Option<usize>, script: String, calls: String, status: String, tol: u64 }
  let mut pend: Vec<Pending> = Vec::new();

  for (name, layout, alphabet) in &sources {
    if !crate::h_mapper::is_wf(layout) { continue; }
    let layout_txt = fmt::layout(layout);
    lean.expect(1, 0, format!("L {}", layout_txt), "wf".to_string());
    if !env_negative_done {
      // negative controls of the environment instance check: a poll that reports a device nobody flagged, a time-out
      // although the keyboard is flagged, a read that returns an event that never arrived
      env_negative_done = true;
      lean.expect(5, 0, "ENVCHK u@1,pD:k@5".to_string(), "env-reject:1:pD:k@5".to_string());
      lean.expect(5, 0, "ENVCHK u@1,Ak:P30,pT@5".to_string(), "env-reject:2:pT@5".to_string());
      lean.expect(5, 0, "ENVCHK u@1,Ak:P30,pD:k@5,kP31@6".to_string(), "env-reject:3:kP31@6".to_string());
    }
    for si in 0..per_layout {
      let tablet = rng.chance(1, 2);
      let hlen = rng.range(1, 10);
      let hist = random_history(&mut rng, alphabet, hlen);
      let dbl = thorough && rng.chance(1, 2500);
      let schedule = random_schedule(&mut rng, &hist, tablet, dbl);
      let env_seed = rng.next();
      let r = run_real(layout, &schedule, env_seed, None, tablet);
      cases += 1;
      if r.tol > 1_000_000 { loose_runs += 1; }
      total_calls += r.calls.len() as u64;
      let n_calls = r.calls.len();
      // statistics on what the transcript contains
      for (i, c) in r.calls.iter().enumerate() {
        if c.starts_with("send:") && i > 0 && r.script[i-1].starts_with("pT") { chord_sends += 1; }
      }
      for s in &r.script { if s.starts_with("tO") { tablet_events += 1; } if s.starts_with("pI") { interrupted += 1; } if s.starts_with("kE") { ends += 1; } }
      if schedule.iter().filter(|m| matches!(m, Move::Kbd(_))).count() >= 2 { multi_batch += 1; }
      if schedule.iter().any(|m| matches!(m, Move::TimerLate)) { late_timers += 1; }
      if r.calls.iter().filter(|c| c.starts_with("send:")).count() >= 2 { distinct.insert(format!("{}#{}", layout_txt, r.script.iter().map(|s| s.split('@').next().unwrap()).collect::<Vec<_>>().join(","))); }
      if samples.len() < 6 && r.calls.iter().any(|c| c.starts_with("send:")) && (si % 5 == 0) {
        samples.push(format!("{} | layout {} | answers {} | calls {} | {}", name, layout_txt, r.script.iter().map(|s| s.split('@').next().unwrap()).collect::<Vec<_>>().join(","), r.calls.join(";"), r.status));
      }
      // direct property evidence on the implementation
      if r.polls_with_unread > 0 {
        monitor_violations += 1;
        findings.push(serde_json::json!({"suite":"loop","kind":"property","properties":["C10"],"what":"poll() entered while notified events were still unread","layout":layout_txt,"layout_json":crate::h_mapper::layout_to_json(layout),"schedule":format!("{:?}", schedule),"answers":r.script,"calls":r.calls,"status":r.status}));
      }
      let idx = pend.len();
      pend.push(Pending { layout: layout_txt.clone(), layout_json: crate::h_mapper::layout_to_json(layout), schedule: format!("{:?}", schedule), fail_at: None, script: r.script.join(","), calls: r.calls.join(";"), status: r.status.clone(), tol: r.tol });
      lean.expect(2, idx as u64, format!("LOOPCHK {} {} {} {}", if r.script.is_empty() { "-".to_string() } else { r.script.join(",") }, if r.calls.is_empty() { "-".to_string() } else { r.calls.join(";") }, r.status, r.tol), "ok".to_string());
      lean.expect(3, idx as u64, format!("LOOPMON {} {} {} {}", if r.script.is_empty() { "-".to_string() } else { r.script.join(",") }, if r.calls.is_empty() { "-".to_string() } else { r.calls.join(";") }, r.status, r.tol), "ok".to_string());
      // the run as an instance of the formal closed system (loop model x edge-triggered environment of Model/LoopEnv.lean)
      if r.status != "panic" {
        env_checked += 1;
        lean.expect(4, idx as u64, format!("ENVCHK {}", if r.moves.is_empty() { "-".to_string() } else { r.moves.join(",") }), "ok".to_string());
      }

      // C20: a failure injected at each individual driver call in turn (quick: a sample of the indices)
      let step = if thorough { std::cmp::max(1, n_calls / 12) } else { std::cmp::max(1, n_calls / 4) };
      let mut k = (si % step.max(1)) as usize;
      while k < n_calls {
        let rf = run_real(layout, &schedule, env_seed, Some(k), tablet);
        fault_cases += 1;
        let expected_status = format!("err:{}", hex(&format!("injected failure at call {}", k)));
        if rf.calls_after_failure > 0 || rf.status != expected_status || rf.calls.len() != k + 1 {
          monitor_violations += 1;
          findings.push(serde_json::json!({"suite":"loop","kind":"property","properties":["C20"],"what":"after an injected driver failure the loop made further calls or did not return that error","fail_at":k,"layout":layout_txt,"layout_json":crate::h_mapper::layout_to_json(layout),"schedule":format!("{:?}", schedule),"answers":rf.script,"calls":rf.calls,"status":rf.status,"calls_after_failure":rf.calls_after_failure}));
        }
        let idx = pend.len();
        pend.push(Pending { layout: layout_txt.clone(), layout_json: crate::h_mapper::layout_to_json(layout), schedule: format!("{:?}", schedule), fail_at: Some(k), script: rf.script.join(","), calls: rf.calls.join(";"), status: rf.status.clone(), tol: rf.tol });
        lean.expect(2, idx as u64, format!("LOOPCHK {} {} {} {}", rf.script.join(","), rf.calls.join(";"), rf.status, rf.tol), "ok".to_string());
        k += step;
      }
    }
    let (n, ms) = lean.sync();
    if n > 0 {
      for m in ms {
        let p = &pend[m.tag as usize];
        if m.kind == 3 {
          monitor_violations += 1;
          let props: Vec<String> = if m.got.starts_with("viol:") { m.got[5..].split(',').map(|s| s.split('/').next().unwrap().to_string()).collect() } else { vec!["?".to_string()] };
          if findings.iter().filter(|f| f["kind"] == "property" && f["what"] == serde_json::json!(m.got)).count() >= 3 { continue; }
          findings.push(serde_json::json!({"suite":"loop","kind":"property","properties":props,"what":m.got,"layout":p.layout,"layout_json":p.layout_json,"schedule":p.schedule,"fail_at":p.fail_at,"answers":p.script,"calls":p.calls,"status":p.status,"tolerance_ns":p.tol}));
        }
        else {
          divergences += 1;
          if findings.iter().filter(|f| f["kind"] == "divergence").count() >= 10 { continue; }
          findings.push(serde_json::json!({"suite":"loop","kind":"divergence","properties":[],"what":m.got,"layout":p.layout,"layout_json":p.layout_json,"schedule":p.schedule,"fail_at":p.fail_at,"answers":p.script,"calls":p.calls,"status":p.status,"tolerance_ns":p.tol}));
        }
      }
    }
    pend.clear();
    if findings.len() > 60 { break; }
  }
  lean.finish();

  findings.sort_by_key(|f| if f["kind"] == "property" { 0 } else { 1 });
  for (i, f) in findings.iter().enumerate() {
    if i >= 60 { break; }
    let path = format!("{}/finding_{}_{}.json", out_dir, seed, i);
    std::fs::write(&path, serde_json::to_string_pretty(f).unwrap()).unwrap();
    let props: Vec<String> = f["properties"].as_array().unwrap().iter().map(|x| x.as_str().unwrap().to_string()).collect();
    println!("FINDING kind={} properties={} replay={}", f["kind"].as_str().unwrap(), if props.is_empty() { "-".to_string() } else { props.join(",") }, path);
  }
  let stats = serde_json::json!({
    "suite": "loop", "seed": seed, "tier": if thorough { "thorough" } else { "quick" },
    "cases": cases + fault_cases, "schedules": cases, "fault_injection_runs": fault_cases, "driver_calls": total_calls,
    "distinct_nontrivial": distinct.len(),
    "rule": "each case = one run of the real loop against a seeded random environment schedule (arrival batches, timer ticks incl. late ones, spurious time-outs, interruptions, tablet events, device-gone) on a corpus/README/built-in/random layout, plus one run per injected-failure index; non-trivial and distinct = distinct (layout, answer sequence) whose transcript contains at least two sends",
    "chord_sends": chord_sends, "tablet_events_read": tablet_events, "interruptions": interrupted, "schedules_with_two_or_more_batches": multi_batch,
    "schedules_with_late_timer": late_timers, "device_end_reads": ends,
    "divergences": divergences, "monitor_violations": monitor_violations, "runs_checked_as_instances_of_the_formal_environment": env_checked, "runs_with_tolerance_over_1ms": loose_runs, "samples": samples, "findings": findings.len()
  });
  if let Some(p) = opts.get("stats") { std::fs::write(p, serde_json::to_string_pretty(&stats).unwrap()).unwrap(); }
  println!("STATS {}", stats);
  if findings.is_empty() { 0 } else { 1 }
}

// ---------- replay of a recorded loop finding ----------
//
// The recorded answers ("resp@ts", as sent to the model) are played back to the real loop, each one not
// before its recorded clock reading (so that the loop's own Instant::now() readings are comparable); the new
// transcript is then compared with the loop model (LOOPCHK) and judged by the specification automaton (LOOPMON).

pub struct ReplayEnv {
  answers: VecDeque<(String, u64)>,
  t0: Instant,
  last_return: u64,
  max_gap: u64,
  calls: Vec<String>,
  script: Vec<String>,
  mismatch: Option<String>
}

impl ReplayEnv {
  fn now_ns(&self) -> u64 { self.t0.elapsed().as_nanos() as u64 }
  // returns the recorded answer for this call, or an error message if the recording has none / is of another type
  fn next(&mut self, call: String, kind: char) -> Result<String, String> {
    let t = self.now_ns();
    if !self.calls.is_empty() { let gap = t.saturating_sub(self.last_return); if gap > self.max_gap { self.max_gap = gap; } }
    self.calls.push(call.clone());
    let (resp, ts) = match self.answers.pop_front() {
      Some(a) => a,
      None => { let m = "replay: end of the recorded answers".to_string(); self.leave(format!("e:{}", hex(&m))); return Err(m); }
    };
    // wait (bounded) until the recorded clock reading
    let now = self.now_ns();
    if ts > now { std::thread::sleep(Duration::from_nanos(std::cmp::min(ts - now, 2_000_000_000))); }
    if resp.starts_with("e:") {
      let bytes: Vec<u8> = (0..resp.len() / 2 - 1).filter_map(|i| u8::from_str_radix(&resp[2 + 2 * i..4 + 2 * i], 16).ok()).collect();
      let m = String::from_utf8_lossy(&bytes).to_string();
      self.leave(resp);
      return Err(m);
    }
    let ok = match kind { 'u' => resp == "u", 'p' => resp.starts_with('p'), 'k' => resp.starts_with('k'), 't' => resp.starts_with('t'), _ => false };
    if !ok {
      let m = format!("replay: the implementation calls `{}` where the recording answered `{}`", call, resp);
      self.mismatch = Some(m.clone());
      self.leave(format!("e:{}", hex(&m)));
      return Err(m);
    }
    self.leave(resp.clone());
    Ok(resp)
  }
  fn leave(&mut self, resp: String) {
    let t = self.now_ns();
    self.last_return = t;
    self.script.push(format!("{}@{}", resp, t));
  }
}

impl ScriptedDriver for ReplayEnv {
  fn register_poll(&mut self) -> Result<(), String> { self.next("reg".to_string(), 'u').map(|_| ()) }
  fn poll(&mut self, timeout: Option<Duration>) -> Result<ScriptedPoll, String> {
    let call = match timeout { None => "poll:-".to_string(), Some(d) => format!("poll:{}", d.as_nanos()) };
    let r = self.next(call, 'p')?;
    if r == "pI" { Ok(ScriptedPoll::Interrupted) }
    else if r == "pT" { Ok(ScriptedPoll::TimedOut) }
    else {
      let devs = r[3..].split('.').filter(|x| !x.is_empty()).map(|x| if x == "k" { ScriptedDevice::Keyboard } else { ScriptedDevice::Tablet }).collect();
      Ok(ScriptedPoll::DeviceEvent(devs))
    }
  }
  fn next_keyboard(&mut self) -> Result<ScriptedNext<Event>, String> {
    let r = self.next("nk".to_string(), 'k')?;
    if r == "kB" { Ok(ScriptedNext::Busy) }
    else if r == "kE" { Ok(ScriptedNext::End) }
    else { match fmt::parse_event(&r[1..]) { Some(e) => Ok(ScriptedNext::One(e)), None => Err(format!("replay: bad event token {}", r)) } }
  }
  fn next_tablet(&mut self) -> Result<ScriptedNext<ScriptedTablet>, String> {
    let r = self.next("nt".to_string(), 't')?;
    if r == "tB" { Ok(ScriptedNext::Busy) }
    else if r == "tE" { Ok(ScriptedNext::End) }
    else { Ok(ScriptedNext::One(if r == "tOn" { ScriptedTablet::On } else { ScriptedTablet::Off })) }
  }
  fn send(&mut self, evs: &Vec<Event>) -> Result<(), String> { self.next(format!("send:{}", fmt::events(evs)), 'u').map(|_| ()) }
}

pub fn replay(opts: &Opts) -> i32 {
  let path = match opts.get("file") { Some(p) => p, None => { eprintln!("--file required"); return 2; } };
  let v: serde_json::Value = serde_json::from_str(&std::fs::read_to_string(path).expect("replay file")).expect("json");
  let layout = fmt::parse_layout(v["layout"].as_str().expect("layout")).expect("layout text");
  let answers: VecDeque<(String, u64)> = v["answers"].as_str().unwrap_or("").split(',').filter(|x| !x.is_empty() && *x != "-").map(|a| {
    let mut it = a.rsplitn(2, '@');
    let ts = it.next().unwrap().parse::<u64>().unwrap_or(0);
    (it.next().unwrap_or("").to_string(), ts)
  }).collect();
  println!("layout: {}", fmt::layout(&layout));
  println!("recorded: {} answers, status {}, what: {}", answers.len(), v["status"], v["what"]);
  let mut env = ReplayEnv { answers, t0: Instant::now(), last_return: 0, max_gap: 0, calls: Vec::new(), script: Vec::new(), mismatch: None };
  let l = layout.clone();
  let res = catch_unwind(AssertUnwindSafe(|| run_one_device(&mut env, l)));
  let status = match res { Err(_) => "panic".to_string(), Ok(Ok(())) => "ok".to_string(), Ok(Err(msg)) => format!("err:{}", hex(&msg)) };
  let tol = env.max_gap + 2000;
  println!("implementation now: {} calls, status {}", env.calls.len(), status);
  println!("calls: {}", env.calls.join(";"));
  if let Some(m) = &env.mismatch { println!("{}", m); }
  let mut lean = Lean::start();
  lean.expect(1, 0, format!("L {}", fmt::layout(&layout)), "wf".to_string());
  let script = if env.script.is_empty() { "-".to_string() } else { env.script.join(",") };
  let calls = if env.calls.is_empty() { "-".to_string() } else { env.calls.join(";") };
  lean.expect(2, 0, format!("LOOPCHK {} {} {} {}", script, calls, status, tol), "ok".to_string());
  lean.expect(3, 0, format!("LOOPMON {} {} {} {}", script, calls, status, tol), "ok".to_string());
  let (n, ms) = lean.sync();
  lean.finish();
  let mut bad = 0;
  if status == "panic" { println!("the loop panics"); bad += 1; }
  for m in ms {
    bad += 1;
    if m.kind == 2 { println!("DIVERGENCE between loop model and implementation: {}", m.got); }
    else if m.kind == 3 { println!("specification automaton: {}", m.got); }
    else { println!("layout: {}", m.got); }
  }
  let _ = n;
  if bad > 0 { println!("REPLAY: {} problem(s)", bad); 1 } else { println!("REPLAY: clean (the implementation's transcript on the recorded answers equals the model's and the automaton accepts it)"); 0 }
}
