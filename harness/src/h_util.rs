// Options, PRNG, small helpers.

use std::collections::HashMap;

pub struct Opts {
  pub map: HashMap<String, String>
}

impl Opts {
  pub fn parse(args: &[String]) -> Opts {
    let mut map = HashMap::new();
    let mut i = 0;
    while i < args.len() {
      let a = &args[i];
      if a.starts_with("--") {
        let key = a[2..].to_string();
        if i + 1 < args.len() && !args[i+1].starts_with("--") {
          map.insert(key, args[i+1].clone());
          i += 2;
        }
        else {
          map.insert(key, "1".to_string());
          i += 1;
        }
      }
      else {
        i += 1;
      }
    }
    Opts { map }
  }
  
  pub fn get(&self, k: &str) -> Option<&str> { self.map.get(k).map(|s| s.as_str()) }
  pub fn get_or<'a>(&'a self, k: &str, d: &'a str) -> &'a str { self.get(k).unwrap_or(d) }
  pub fn num(&self, k: &str, d: u64) -> u64 { self.get(k).and_then(|s| s.parse().ok()).unwrap_or(d) }
  pub fn flag(&self, k: &str) -> bool { self.map.contains_key(k) }
  pub fn thorough(&self) -> bool { self.get_or("tier", "quick") == "thorough" }
}

// xorshift64* — every random choice of a run derives from one state seeded by VERIF_SEED.
#[derive(Clone)]
pub struct Rng(pub u64);

impl Rng {
  pub fn new(seed: u64) -> Rng {
    let mut r = Rng(seed ^ 0x9E3779B97F4A7C15);
    if r.0 == 0 { r.0 = 0x2545F4914F6CDD1D; }
    for _ in 0..8 { r.next(); }
    r
  }
  pub fn next(&mut self) -> u64 {
    let mut x = self.0;
    x ^= x >> 12;
    x ^= x << 25;
    x ^= x >> 27;
    self.0 = x;
    x.wrapping_mul(0x2545F4914F6CDD1D)
  }
  pub fn below(&mut self, n: usize) -> usize { if n == 0 { 0 } else { (self.next() % (n as u64)) as usize } }
  pub fn range(&mut self, lo: usize, hi: usize) -> usize { lo + self.below(hi - lo + 1) }
  pub fn chance(&mut self, num: usize, den: usize) -> bool { self.below(den) < num }
  pub fn pick<'a, T>(&mut self, v: &'a [T]) -> &'a T { &v[self.below(v.len())] }
  pub fn fork(&mut self, salt: u64) -> Rng { Rng::new(self.next() ^ salt.wrapping_mul(0xD6E8FEB86659FD93)) }
}

pub fn json_escape(s: &str) -> String {
  serde_json::Value::String(s.to_string()).to_string()
}
