// The native Lean model driver as a child process, driven through the line protocol.
// Requests are pipelined: `expect(req, expected)` queues a request together with the reply the
// implementation predicts; `sync()` waits for all replies and returns the disagreements.

use std::io::{BufRead, BufReader, BufWriter, Write};
use std::process::{Child, Command, Stdio};
use std::sync::mpsc::{channel, sync_channel, Receiver, Sender, SyncSender};
use std::thread::{spawn, JoinHandle};

pub const DRIVER_PATH: &str = "/verif/lean/.lake/build/bin/tmdriver";

#[derive(Debug, Clone)]
pub struct Mismatch {
  pub kind: u8,        // caller-defined class of request
  pub tag: u64,        // caller-defined context
  pub req: String,
  pub expected: String,
  pub got: String
}

enum Msg {
  Case { kind: u8, tag: u64, req: String, expected: String },
  Sync
}

pub struct Lean {
  child: Child,
  tx: Option<SyncSender<Msg>>,
  sync_rx: Receiver<(u64, Vec<Mismatch>)>,
  writer: Option<JoinHandle<()>>,
  reader: Option<JoinHandle<()>>,
  pub sent: u64
}

const KEEP: usize = 400;
const KEEP_PER_CLASS: usize = 6;

impl Lean {
  pub fn start() -> Lean {
    let mut child = Command::new(DRIVER_PATH)
      .stdin(Stdio::piped()).stdout(Stdio::piped()).stderr(Stdio::inherit())
      .spawn().unwrap_or_else(|e| panic!("cannot start Lean driver {}: {}", DRIVER_PATH, e));
    let stdin = child.stdin.take().unwrap();
    let stdout = child.stdout.take().unwrap();
    let (tx, rx) = sync_channel::<Msg>(1 << 14);
    let (fw_tx, fw_rx): (Sender<Msg>, Receiver<Msg>) = channel();
    let (sync_tx, sync_rx) = channel();
    
    let writer = spawn(move || {
      let mut w = BufWriter::with_capacity(1 << 16, stdin);
      for msg in rx {
        match &msg {
          Msg::Case { req, .. } => {
            if w.write_all(req.as_bytes()).is_err() || w.write_all(b"\n").is_err() { break; }
          },
          Msg::Sync => { let _ = w.write_all(b"#\n"); let _ = w.flush(); }
        }
        if fw_tx.send(msg).is_err() { break; }
      }
      let _ = w.flush();
    });
    
    let reader = spawn(move || {
      let mut r = BufReader::with_capacity(1 << 16, stdout);
      let mut mismatches: Vec<Mismatch> = Vec::new();
      let mut per_class: std::collections::HashMap<(u8, String), usize> = std::collections::HashMap::new();
      let mut n_mismatch: u64 = 0;
      let mut line = String::new();
      for msg in fw_rx {
        match msg {
          Msg::Case { kind, tag, req, expected } => {
            line.clear();
            let got = match r.read_line(&mut line) {
              Ok(0) | Err(_) => "<driver-closed>".to_string(),
              Ok(_) => line.trim_end_matches('\n').to_string()
            };
            if got != expected {
              n_mismatch += 1;
              // keep the first few of every CLASS of disagreement (request kind + verdict), so that a flood of
              // one kind early in an exploration cannot hide a different violation found later
              let class = (kind, if got.starts_with("viol:") { got.split(' ').next().unwrap_or("").to_string() } else { String::new() });
              let c = per_class.entry(class).or_insert(0usize);
              if *c < KEEP_PER_CLASS && mismatches.len() < KEEP {
                *c += 1;
                mismatches.push(Mismatch { kind, tag, req, expected, got });
              }
            }
          },
          Msg::Sync => {
            let ms = std::mem::replace(&mut mismatches, Vec::new());
            per_class.clear();
            let n = n_mismatch;
            n_mismatch = 0;
            if sync_tx.send((n, ms)).is_err() { break; }
          }
        }
      }
    });
    
    Lean { child, tx: Some(tx), sync_rx, writer: Some(writer), reader: Some(reader), sent: 0 }
  }
  
  pub fn expect(&mut self, kind: u8, tag: u64, req: String, expected: String) {
    self.sent += 1;
    self.tx.as_ref().unwrap().send(Msg::Case { kind, tag, req, expected }).expect("lean writer gone");
  }
  
  // Waits for every queued request; returns (number of disagreements, the first KEEP of them).
  pub fn sync(&mut self) -> (u64, Vec<Mismatch>) {
    self.tx.as_ref().unwrap().send(Msg::Sync).expect("lean writer gone");
    self.sync_rx.recv().expect("lean reader gone")
  }
  
  // One synchronous question.
  pub fn ask(&mut self, req: &str) -> String {
    let (n0, ms0) = self.sync();
    assert!(n0 == 0 && ms0.is_empty(), "ask() with unsynced disagreements pending");
    self.expect(255, 0, req.to_string(), "\u{1}".to_string());
    let (_, ms) = self.sync();
    ms.into_iter().next().map(|m| m.got).unwrap_or_default()
  }
  
  pub fn finish(mut self) {
    drop(self.tx.take());
    if let Some(w) = self.writer.take() { let _ = w.join(); }
    if let Some(r) = self.reader.take() { let _ = r.join(); }
    let _ = self.child.wait();
  }
}
