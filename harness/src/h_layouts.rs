// Layout sources for the mapper and loop suites: built-ins, README examples, corpus, random, enumerated.

use crate::keys::{KeyCode, Layout, Mapping, Repeat};
use crate::h_util::Rng;
use KeyCode::*;

pub struct Source {
  pub name: String,
  pub layout: Layout,
  pub alphabets: Vec<Vec<KeyCode>>
}

pub fn load_fancy_json(text: &str) -> Result<Layout, String> {
  let v: serde_json::Value = serde_json::from_str(text).map_err(|e| format!("json: {}", e))?;
  crate::fancy_layout_interpreting::convert(&crate::layout_parsing_formatting::parse_layout_from_json(&v)?)
}

pub fn builtin_layouts() -> Vec<(String, Layout)> {
  let mut names: Vec<&String> = crate::default_fancy_layouts::DEFAULT_LAYOUTS.keys().collect();
  names.sort();
  names.into_iter().map(|n| {
    let text = crate::default_fancy_layouts::DEFAULT_LAYOUTS.get(n).unwrap();
    (format!("builtin:{}", n), load_fancy_json(text).expect("built-in layout must load"))
  }).collect()
}

// ```json blocks of /repo/README.md that load as layouts (a block that is a single mapping is wrapped).
pub fn readme_layouts() -> Vec<(String, Layout)> {
  let mut res = Vec::new();
  let text = match std::fs::read_to_string("/repo/README.md") { Ok(t) => t, Err(_) => return res };
  let mut in_block = false;
  let mut block = String::new();
  let mut idx = 0;
  for line in text.lines() {
    if line.trim_start().starts_with("```json") { in_block = true; block.clear(); continue; }
    if in_block && line.trim_start().starts_with("```") {
      in_block = false;
      idx += 1;
      let candidates = vec![block.clone(), format!("{{\"mappings\":[{}]}}", block)];
      for c in candidates {
        if let Ok(l) = load_fancy_json(&c) {
          res.push((format!("readme:{}", idx), l));
          break;
        }
      }
      continue;
    }
    if in_block { block.push_str(line); block.push('\n'); }
  }
  res
}

pub fn corpus_layouts() -> Vec<(String, Layout)> {
  let mut res = Vec::new();
  let dir = "/verif/corpus/layouts";
  let mut names: Vec<String> = match std::fs::read_dir(dir) {
    Ok(rd) => rd.filter_map(|e| e.ok()).map(|e| e.file_name().to_string_lossy().to_string()).filter(|n| n.ends_with(".json")).collect(),
    Err(_) => vec![]
  };
  names.sort();
  for n in names {
    let text = std::fs::read_to_string(format!("{}/{}", dir, n)).unwrap();
    match load_fancy_json(&text) {
      Ok(l) => res.push((format!("corpus:{}", n), l)),
      Err(e) => eprintln!("note: corpus layout {} is rejected by the loader: {}", n, e)
    }
  }
  res
}

pub fn layout_keys(l: &Layout) -> Vec<KeyCode> {
  let mut res: Vec<KeyCode> = Vec::new();
  let mut add = |k: &KeyCode| { if !res.contains(k) { res.push(*k); } };
  for m in &l.mappings {
    for k in &m.from { add(k); }
  }
  for m in &l.mappings {
    for k in &m.to { add(k); }
    for k in &m.absorbing { add(k); }
    if let Repeat::Special { keys, .. } = &m.repeat { for k in keys { add(k); } }
  }
  res
}

pub fn is_modifier(k: &KeyCode) -> bool {
  matches!(k, LEFTSHIFT | RIGHTSHIFT | LEFTMETA | RIGHTMETA | LEFTCTRL | RIGHTCTRL | LEFTALT | RIGHTALT)
}

fn foreign_keys(l: &Layout) -> (KeyCode, KeyCode) {
  let used = layout_keys(l);
  let ord = [F, G, H, KP5, F13].iter().find(|k| !used.contains(k)).cloned().unwrap_or(F14);
  let md = [RIGHTMETA, RIGHTCTRL, LEFTALT, LEFTMETA, RIGHTALT, RIGHTSHIFT, LEFTCTRL, LEFTSHIFT].iter().find(|k| !used.contains(k)).cloned().unwrap_or(RIGHTMETA);
  (ord, md)
}

// Event alphabets for exploring a layout: at most `max` layout keys (all of them for a small
// layout; several seeded sub-alphabets grown around related mappings for a large one) plus one
// foreign ordinary key and one foreign modifier.
pub fn alphabets_for(l: &Layout, rng: &mut Rng, how_many: usize, max: usize) -> Vec<Vec<KeyCode>> {
  let all = layout_keys(l);
  let (ford, fmod) = foreign_keys(l);
  let mut res = Vec::new();
  if all.len() <= max {
    let mut a = all.clone();
    a.push(ford);
    a.push(fmod);
    res.push(a);
    return res;
  }
  for _ in 0..how_many {
    let mut a: Vec<KeyCode> = Vec::new();
    let mut guard = 0;
    while a.len() < max && guard < 200 {
      guard += 1;
      // pick a mapping; prefer one sharing a key with what we have
      let m = {
        let cands: Vec<&Mapping> = l.mappings.iter().filter(|m| a.is_empty() || m.from.iter().chain(m.to.iter()).any(|k| a.contains(k))).collect();
        if cands.is_empty() || rng.chance(1, 4) { rng.pick(&l.mappings) } else { *rng.pick(&cands) }
      };
      for k in m.from.iter().chain(m.to.iter()) {
        if a.len() < max && !a.contains(k) && (m.from.contains(k) || rng.chance(1, 2)) { a.push(*k); }
      }
    }
    if rng.chance(1, 2) { a.push(ford); }
    if rng.chance(1, 3) { a.push(fmod); }
    res.push(a);
  }
  res
}

// ---- random structured layouts (well-formed: non-empty duplicate-free from, duplicate-free to) ----

const TRIG_KEYS: [KeyCode; 6] = [A, B, C, LEFTSHIFT, LEFTCTRL, CAPSLOCK];
const OUT_KEYS: [KeyCode; 8] = [A, B, C, X, Y, Z, LEFTSHIFT, LEFTCTRL];

fn distinct(rng: &mut Rng, pool: &[KeyCode], n: usize) -> Vec<KeyCode> {
  let mut res: Vec<KeyCode> = Vec::new();
  let mut guard = 0;
  while res.len() < n && guard < 100 {
    guard += 1;
    let k = *rng.pick(pool);
    if !res.contains(&k) { res.push(k); }
  }
  res
}

#[derive(Clone, Copy, PartialEq, Eq)]
pub enum Flavor {
  Plain,       // no absorbing
  Absorbing,   // absorbing lists allowed (subset of trigger minus final key, as the loader guarantees)
  Canonical    // absorbing, and H1 (outputs: modifiers first) and H2 (absorbing mappings are key-producing)
}

pub fn random_layout(rng: &mut Rng, flavor: Flavor) -> Layout {
  let n = rng.range(1, 4);
  let mut mappings = Vec::new();
  for _ in 0..n {
    let nf = match rng.below(10) { 0..=3 => 1, 4..=8 => 2, _ => 3 };
    let from = distinct(rng, &TRIG_KEYS, nf);
    let nt = match rng.below(10) { 0 => 0, 1..=5 => 1, 6..=8 => 2, _ => 3 };
    let mut to = distinct(rng, &OUT_KEYS, nt);
    let repeat = match rng.below(10) {
      0..=5 => Repeat::Normal,
      6..=7 => Repeat::Disabled,
      _ => {
        let nk = rng.below(3);
        Repeat::Special { keys: distinct(rng, &[X, Y, LEFTCTRL, F20, A], nk), delay_ms: [0, 130, 180][rng.below(3)], interval_ms: [0, 30][rng.below(2)] }
      }
    };
    let mut absorbing = Vec::new();
    if flavor != Flavor::Plain && from.len() >= 2 && rng.chance(1, 2) {
      for k in &from[..from.len()-1] {
        if rng.chance(2, 3) { absorbing.push(*k); }
      }
    }
    if flavor == Flavor::Canonical {
      // H1: every output key before the last is a modifier
      if to.len() >= 2 {
        let last = to[to.len()-1];
        let mut mods: Vec<KeyCode> = to[..to.len()-1].iter().cloned().filter(is_modifier).collect();
        mods.push(last);
        to = mods;
      }
      // H2: an absorbing mapping is key-producing
      if !absorbing.is_empty() && (to.is_empty() || is_modifier(&to[to.len()-1])) {
        absorbing.clear();
      }
    }
    mappings.push(Mapping { from, to, repeat, absorbing });
  }
  Layout { mappings }
}

// layouts rich in absorbing structure: several absorbed keys per mapping, modifier-ish keys that are
// also outputs of other mappings (remaps), overlapping chords
pub fn absorbing_rich_layout(rng: &mut Rng) -> Layout {
  let pool = [LEFTSHIFT, LEFTCTRL, CAPSLOCK, A];
  let nm = rng.range(2, 3);
  let ms = distinct(rng, &pool, nm);
  let finals = [B, C, A, LEFTCTRL];
  let outs = [X, Y, B, LEFTSHIFT, LEFTCTRL, CAPSLOCK, A];
  let mut mappings = Vec::new();
  let n = rng.range(2, 4);
  for i in 0..n {
    if i == 0 && rng.chance(2, 3) {
      // a remap of one modifier-ish key onto another (or onto nothing / a pair)
      let from = vec![*rng.pick(&ms)];
      let to = match rng.below(4) { 0 => vec![], 1 => vec![*rng.pick(&ms)], 2 => vec![*rng.pick(&ms), X], _ => vec![*rng.pick(&outs)] };
      let mut t2: Vec<KeyCode> = Vec::new();
      for k in to { if !t2.contains(&k) { t2.push(k); } }
      mappings.push(Mapping { from, to: t2, repeat: Repeat::Normal, absorbing: vec![] });
      continue;
    }
    let np = rng.range(1, ms.len());
    let mut from = distinct(rng, &ms, np);
    let fin = *rng.pick(&finals);
    from.retain(|k| *k != fin);
    if from.is_empty() { from.push(if fin == ms[0] { ms[1] } else { ms[0] }); }
    let prefix = from.clone();
    from.push(fin);
    let nt = rng.below(3);
    let mut to = distinct(rng, &outs, nt);
    // chords that output their own final key (the style of the built-in layouts), sometimes behind a modifier
    if rng.chance(1, 4) { to = if rng.chance(1, 2) { vec![fin] } else { vec![prefix[0], fin] }; }
    let mut absorbing: Vec<KeyCode> = prefix.iter().cloned().filter(|_| rng.chance(2, 3)).collect();
    if absorbing.is_empty() && rng.chance(3, 4) { absorbing.push(prefix[0]); }
    if rng.chance(1, 2) { absorbing.reverse(); }
    let repeat = match rng.below(8) { 0 => Repeat::Disabled, 1 => Repeat::Special { keys: vec![X], delay_ms: 130, interval_ms: 30 }, _ => Repeat::Normal };
    mappings.push(Mapping { from, to, repeat, absorbing });
  }
  // a single-key mapping from another key onto a key some chord already outputs (shared outputs), in any
  // repeat mode: the no-repeat / special-repeat paths then meet keys handed back by release_absorbed_keys
  if rng.chance(1, 2) {
    let shared: Vec<KeyCode> = mappings.iter().flat_map(|m| m.to.iter().cloned()).collect();
    let from_key = *rng.pick(&[F, C, B, X]);
    if !shared.is_empty() && !mappings.iter().any(|m| m.from.len() == 1 && m.from[0] == from_key) {
      // mostly a key a chord already outputs; sometimes the key itself (an identity mapping that only sets a repeat mode,
      // the way repeat-only entries of the fancy format convert)
      let y = if rng.chance(1, 3) { from_key } else { *rng.pick(&shared) };
      let to = if rng.chance(1, 4) { vec![LEFTSHIFT, y] } else { vec![y] };
      let mut t2: Vec<KeyCode> = Vec::new();
      for k in to { if !t2.contains(&k) { t2.push(k); } }
      let repeat = match rng.below(3) { 0 => Repeat::Disabled, 1 => Repeat::Special { keys: vec![X], delay_ms: 130, interval_ms: 30 }, _ => Repeat::Normal };
      mappings.push(Mapping { from: vec![from_key], to: t2, repeat, absorbing: vec![] });
    }
  }
  Layout { mappings }
}

// ---- enumerated family: every layout of <= 2 mappings over a 4-key alphabet ----
// triggers of 1..2 keys, outputs of 0..2 keys, repeat in {Normal, Disabled, Special([X],..)},
// every absorbing subset of the trigger minus its final key.
pub fn enumerated_mappings() -> Vec<Mapping> {
  let alpha = [A, B, LEFTSHIFT, CAPSLOCK];
  let outs = [A, X, LEFTSHIFT, LEFTCTRL];
  let mut froms: Vec<Vec<KeyCode>> = Vec::new();
  for a in &alpha { froms.push(vec![*a]); }
  for a in &alpha { for b in &alpha { if a != b { froms.push(vec![*a, *b]); } } }
  let mut tos: Vec<Vec<KeyCode>> = vec![vec![]];
  for a in &outs { tos.push(vec![*a]); }
  for a in &outs { for b in &outs { if a != b { tos.push(vec![*a, *b]); } } }
  let reps = vec![Repeat::Normal, Repeat::Disabled, Repeat::Special { keys: vec![X], delay_ms: 130, interval_ms: 30 }];
  let mut res = Vec::new();
  for f in &froms {
    for t in &tos {
      for r in &reps {
        res.push(Mapping { from: f.clone(), to: t.clone(), repeat: r.clone(), absorbing: vec![] });
        if f.len() == 2 {
          res.push(Mapping { from: f.clone(), to: t.clone(), repeat: r.clone(), absorbing: vec![f[0]] });
        }
      }
    }
  }
  res
}
