// Suite S-mapper: state-level bisimulation check between the real `Mapper` and the Lean model,
// plus the executable property monitors (evaluated by the Lean driver on the *implementation's*
// transitions) that serve as the failing-input search for C01–C09 and C19.

use crate::keys::{Event, KeyCode, Layout, Mapping, Repeat};
use crate::key_transforms::{Mapper, VerifSnapshot};
use crate::h_util::{Opts, Rng};
use crate::h_lean::{Lean, Mismatch};
use crate::h_fmt as fmt;
use crate::h_layouts::{self, Flavor};
use std::collections::HashMap;
use std::panic::{catch_unwind, AssertUnwindSafe};
use std::sync::atomic::{AtomicUsize, Ordering};
use std::sync::{Arc, Mutex};

pub const KIND_LAYOUT: u8 = 1;
pub const KIND_H12: u8 = 9;
pub const KIND_STEP: u8 = 2;
pub const KIND_RELALL: u8 = 3;
pub const KIND_MON: u8 = 4;
pub const KIND_MONRA: u8 = 5;
pub const KIND_AK: u8 = 6;
pub const KIND_MON8: u8 = 7;

#[derive(Default, Clone)]
pub struct Stats {
  pub layouts: u64,
  pub explorations: u64,
  pub states: u64,
  pub transitions: u64,
  pub relall: u64,
  pub lean_requests: u64,
  pub firing_steps: u64,
  pub ignored_events: u64,
  pub passthrough_steps: u64,
  pub absorbing_states: u64,
  pub multi_active_states: u64,
  pub repeat_requests: u64,
  pub capped_explorations: u64,
  pub divergences: u64,
  pub monitor_violations: u64,
  pub impl_panics: u64,
  pub h12_layouts: u64,
  pub c06_pairs: u64,
  pub c08_obligation_steps: u64,
  pub nonwf_layouts: u64,
  pub by_source: HashMap<String, u64>,
  pub samples: Vec<String>
}

impl Stats {
  fn add(&mut self, o: &Stats) {
    self.layouts += o.layouts; self.explorations += o.explorations; self.states += o.states;
    self.transitions += o.transitions; self.relall += o.relall; self.lean_requests += o.lean_requests;
    self.firing_steps += o.firing_steps; self.ignored_events += o.ignored_events;
    self.passthrough_steps += o.passthrough_steps; self.absorbing_states += o.absorbing_states;
    self.multi_active_states += o.multi_active_states; self.repeat_requests += o.repeat_requests;
    self.capped_explorations += o.capped_explorations; self.divergences += o.divergences;
    self.monitor_violations += o.monitor_violations; self.impl_panics += o.impl_panics; self.h12_layouts += o.h12_layouts;
    self.nonwf_layouts += o.nonwf_layouts; self.c06_pairs += o.c06_pairs; self.c08_obligation_steps += o.c08_obligation_steps;
    for (k, v) in &o.by_source { *self.by_source.entry(k.clone()).or_insert(0) += v; }
    for s in &o.samples { if self.samples.len() < 12 { self.samples.push(s.clone()); } }
  }
}

#[derive(Clone)]
pub struct Finding {
  pub kind: String,            // "divergence" | "property" | "impl-panic"
  pub properties: Vec<String>, // for "property": e.g. ["C19"] or ["C08:i"]
  pub source: String,
  pub layout: Layout,
  pub history: Vec<Event>,
  pub state: String,
  pub request: String,
  pub impl_says: String,
  pub model_says: String
}

struct Node {
  snap: VerifSnapshot,
  p: Vec<KeyCode>,
  v: Vec<KeyCode>,
  obls: Vec<Obl>,
  parent: u32,
  ev: Option<Event>
}

// C08 ghost obligation (mirrors `Obl` / `nextObls` in lean/TmVerif/Monitors.lean; the Lean driver
// recomputes the update and the two must agree)
#[derive(Clone, PartialEq, Eq, Debug)]
pub struct Obl { m: KeyCode, t: KeyCode, midx: usize, fresh: bool, held: Vec<KeyCode> }

fn obls_text(obls: &[Obl]) -> String {
  if obls.is_empty() { return "-".to_string(); }
  obls.iter().map(|o| format!("{}.{}.{}.{}.{}", fmt::code(&o.m), fmt::code(&o.t), o.midx, if o.fresh { 1 } else { 0 },
    if o.held.is_empty() { "~".to_string() } else { let mut c: Vec<i32> = o.held.iter().map(|k| fmt::code(k)).collect(); c.sort(); c.dedup(); c.iter().map(|x| x.to_string()).collect::<Vec<_>>().join("+") })).collect::<Vec<_>>().join(";")
}

fn next_obls(layout: &Layout, obls: &[Obl], before: &VerifSnapshot, after: &VerifSnapshot, ev: &Event, p2: &[KeyCode]) -> Vec<Obl> {
  let (k, pressed) = match ev { Event::Pressed(k) => (*k, true), Event::Released(k) => (*k, false) };
  let mut res: Vec<Obl> = obls.iter().filter(|o| o.m != k).cloned().collect();
  if !pressed { return res; }
  if before.input_pressed_keys.contains(&k) { return res; }
  for o in res.iter_mut() { if o.t != k { o.fresh = false; } }
  let fired = after.active_mappings.last().filter(|m| m.from.last() == Some(&k)).cloned();
  if let Some(fm) = fired {
    res.retain(|o| !fm.absorbing.contains(&o.m));
    let midx = layout.mappings.iter().position(|x| *x == fm).unwrap_or(usize::MAX);
    for m in &fm.absorbing { res.push(Obl { m: *m, t: k, midx, fresh: true, held: p2.to_vec() }); }
  }
  res
}

fn clone_snap(s: &VerifSnapshot) -> VerifSnapshot {
  VerifSnapshot {
    input_pressed_keys: s.input_pressed_keys.clone(),
    active_mappings: s.active_mappings.clone(),
    pass_through_keys: s.pass_through_keys.clone(),
    mapped_output_keys: s.mapped_output_keys.clone(),
    mapped_absorbed_keys: s.mapped_absorbed_keys.clone(),
    absorbing_trigger: s.absorbing_trigger.clone(),
    repeating_trigger: s.repeating_trigger.clone()
  }
}

fn sorted(mut v: Vec<KeyCode>) -> Vec<KeyCode> { v.sort(); v }

fn fold_events(v: &[KeyCode], evs: &[Event]) -> Vec<KeyCode> {
  let mut v: Vec<KeyCode> = v.to_vec();
  for e in evs {
    match e {
      Event::Pressed(k) => { if !v.contains(k) { v.push(*k); } },
      Event::Released(k) => { v.retain(|x| x != k); }
    }
  }
  sorted(v)
}

fn history_to(nodes: &[Node], mut id: u32) -> Vec<Event> {
  let mut h = Vec::new();
  while let Some(e) = &nodes[id as usize].ev {
    h.push(e.clone());
    id = nodes[id as usize].parent;
  }
  h.reverse();
  h
}

pub fn is_wf(l: &Layout) -> bool {
  l.mappings.iter().all(|m| {
    !m.from.is_empty()
      && (0..m.from.len()).all(|i| !m.from[i+1..].contains(&m.from[i]))
      && (0..m.to.len()).all(|i| !m.to[i+1..].contains(&m.to[i]))
  })
}

// Explore one (layout, alphabet): every reachable (mapper state, physically-held set, virtually-held
// set) with at most `max_held` keys physically held, up to `max_states` nodes, breadth first.
pub fn explore(lean: &mut Lean, source: &str, layout: &Layout, alphabet: &[KeyCode], max_held: usize, max_states: usize, stats: &mut Stats, findings: &mut Vec<Finding>) {
  stats.explorations += 1;
  let layout_line = format!("L {}", fmt::layout(layout));
  let wf = is_wf(layout);

  // Mapper::for_layout: must panic exactly when the model says so.
  let made = catch_unwind(AssertUnwindSafe(|| Mapper::for_layout(layout)));
  lean.expect(KIND_LAYOUT, 0, layout_line.clone(), (if made.is_ok() { "wf" } else { "panic" }).to_string());
  let mut mapper = match made {
    Ok(m) => m,
    Err(_) => {
      stats.nonwf_layouts += 1;
      let (n, ms) = lean.sync();
      if n > 0 {
        stats.divergences += n;
        for m in ms {
          findings.push(Finding { kind: "divergence".into(), properties: vec![], source: source.into(), layout: layout.clone(), history: vec![], state: "-".into(), request: m.req, impl_says: m.expected, model_says: m.got });
        }
      }
      else if wf {
        // the model and the implementation agree on a panic for a layout this harness thinks is well-formed
        findings.push(Finding { kind: "impl-panic".into(), properties: vec!["C14".into()], source: source.into(), layout: layout.clone(), history: vec![], state: "-".into(), request: layout_line, impl_says: "panic".into(), model_says: "panic".into() });
      }
      return;
    }
  };

  // the layouts people actually use (built-in, README, the repository's unit tests) must satisfy H1 and H2 (once the scope of the
  // partial theorem of C08; since the fixes of D7 / D6 the scope where those fixes change nothing): the claim "all built-in, README and unit-test layouts satisfy H1 and H2" is checked
  // here on every run instead of being asserted
  if source.starts_with("builtin:") || source.starts_with("readme:") || source.starts_with("corpus:kt_") {
    stats.h12_layouts += 1;
    let expect = if layout.mappings.iter().all(|m| m.absorbing.is_empty()) { "in noabs" } else { "in abs" };
    lean.expect(KIND_H12, 0, "H12".to_string(), expect.to_string());
  }

  let mut nodes: Vec<Node> = Vec::new();
  let mut seen: HashMap<String, u32> = HashMap::new();
  let init = mapper.verif_snapshot();
  seen.insert(format!("{}#-#-", fmt::state(layout, &init)), 0);
  nodes.push(Node { snap: init, p: vec![], v: vec![], obls: vec![], parent: 0, ev: None });

  let mut head = 0usize;
  let mut capped = false;
  let mut sample_done = false;
  let mut rest_checked: std::collections::HashSet<String> = std::collections::HashSet::new();
  while head < nodes.len() {
    let id = head as u32;
    head += 1;
    let (snap, p, v, obls) = { let n = &nodes[id as usize]; (clone_snap(&n.snap), n.p.clone(), n.v.clone(), n.obls.clone()) };
    let state_s = fmt::state(layout, &snap);
    let p_s = fmt::keys(&p);
    let v_s = fmt::keys(&v);
    stats.states += 1;
    if !snap.mapped_absorbed_keys.is_empty() { stats.absorbing_states += 1; }
    if snap.active_mappings.len() >= 2 { stats.multi_active_states += 1; }

    // release_all from this state
    {
      mapper.verif_restore(&snap);
      let r = catch_unwind(AssertUnwindSafe(|| mapper.release_all()));
      stats.relall += 1;
      match r {
        Ok(evs) => {
          let after = mapper.verif_snapshot();
          // C06 on the implementation: a rest state / the state after release_all answers like a fresh mapper
          for (what, st) in [("rest", &snap), ("release_all", &after)] {
            if what == "rest" && !p.is_empty() { continue; }
            let key = fmt::state(layout, st);
            if rest_checked.len() < 24 && rest_checked.insert(key) {
              if let Some((cont, got, fresh)) = pair_check(layout, st, alphabet, 400, &mut stats.c06_pairs) {
                let mut h = history_to(&nodes, id);
                stats.monitor_violations += 1;
                findings.push(Finding { kind: "property".into(), properties: vec!["C06".into()], source: source.into(), layout: layout.clone(), history: { if what == "release_all" { h.clear(); } h.extend(cont.clone()); h }, state: fmt::state(layout, st), request: format!("after {} (history {}), continuation {}", what, fmt::events_human(&history_to(&nodes, id)), fmt::events_human(&cont)), impl_says: got, model_says: format!("fresh mapper: {}", fresh) });
              }
              mapper.verif_restore(&snap);
            }
          }
          let out = format!("{} {}", fmt::events(&evs), fmt::state(layout, &after));
          lean.expect(KIND_RELALL, id as u64, format!("RA {}", state_s), out.clone());
          lean.expect(KIND_MONRA, id as u64, format!("MRA {} {} {} {}", p_s, v_s, state_s, out), "ok".to_string());
        },
        Err(_) => {
          stats.impl_panics += 1;
          findings.push(Finding { kind: "impl-panic".into(), properties: vec!["C14".into()], source: source.into(), layout: layout.clone(), history: history_to(&nodes, id), state: state_s.clone(), request: "release_all".into(), impl_says: "panic".into(), model_says: "?".into() });
          mapper = Mapper::for_layout(layout);
        }
      }
    }

    for k in alphabet {
      for pressed in [true, false] {
        let ev = if pressed { Event::Pressed(*k) } else { Event::Released(*k) };
        let well_formed = if pressed { !p.contains(k) } else { p.contains(k) };
        if pressed && well_formed && p.len() >= max_held { continue; }
        mapper.verif_restore(&snap);
        let r = catch_unwind(AssertUnwindSafe(|| mapper.step(ev.clone())));
        stats.transitions += 1;
        let ev_s = fmt::event(&ev);
        match r {
          Err(_) => {
            stats.impl_panics += 1;
            lean.expect(KIND_STEP, id as u64, format!("S {} {}", state_s, ev_s), "panic".to_string());
            findings.push(Finding { kind: "impl-panic".into(), properties: vec!["C14".into()], source: source.into(), layout: layout.clone(), history: { let mut h = history_to(&nodes, id); h.push(ev.clone()); h }, state: state_s.clone(), request: ev_s.clone(), impl_says: "panic".into(), model_says: "?".into() });
            mapper = Mapper::for_layout(layout);
          },
          Ok(res) => {
            let after = mapper.verif_snapshot();
            let after_s = fmt::state(layout, &after);
            let out = format!("{} {} {}", fmt::events(&res.events), fmt::rrepeat(&res.repeat), after_s);
            lean.expect(KIND_STEP, id as u64, format!("S {} {}", state_s, ev_s), out.clone());
            lean.expect(KIND_MON, id as u64, format!("M {} {} {} {} {}", p_s, v_s, state_s, ev_s, out), "ok".to_string());

            if after.active_mappings.len() > snap.active_mappings.len() { stats.firing_steps += 1; }
            if res.repeat == crate::key_transforms::ResultingRepeat::NoChange { stats.ignored_events += 1; }
            if let crate::key_transforms::ResultingRepeat::Repeating { .. } = res.repeat { stats.repeat_requests += 1; }
            if res.events.len() == 1 && res.events[0] == Event::Pressed(*k) { stats.passthrough_steps += 1; }

            let mut p2 = p.clone();
            if pressed { if !p2.contains(k) { p2.push(*k); p2.sort(); } } else { p2.retain(|x| x != k); }
            let v2 = fold_events(&v, &res.events);
            let obls2 = next_obls(layout, &obls, &snap, &after, &ev, &p2);
            if !obls.is_empty() || !obls2.is_empty() {
              stats.c08_obligation_steps += 1;
              lean.expect(KIND_MON8, id as u64, format!("M8 {} {} {} {} {} {}", p_s, v_s, state_s, ev_s, out, obls_text(&obls)), format!("ok {}", obls_text(&obls2)));
            }
            let key = format!("{}#{}#{}#{}", after_s, fmt::keys(&p2), fmt::keys(&v2), obls_text(&obls2));
            if !seen.contains_key(&key) {
              if nodes.len() < max_states {
                seen.insert(key, nodes.len() as u32);
                nodes.push(Node { snap: after, p: p2, v: v2, obls: obls2, parent: id, ev: Some(ev.clone()) });
              }
              else { capped = true; }
            }

            if !sample_done && res.events.len() >= 3 && stats.samples.len() < 12 {
              sample_done = true;
              let mut h = history_to(&nodes, id); h.push(ev.clone());
              stats.samples.push(format!("{} | layout {} | history {} | last step emits {}", source, fmt::layout(layout), fmt::events_human(&h), fmt::events_human(&res.events)));
            }
          }
        }
      }
    }
  }
  if capped { stats.capped_explorations += 1; }

  let (n, ms) = lean.sync();
  if n > 0 {
    for m in ms {
      let id = m.tag as u32;
      let mut history = history_to(&nodes, id);
      let node_state = fmt::state(layout, &nodes[id as usize].snap);
      match m.kind {
        KIND_MON8 => {
          let toks: Vec<&str> = m.req.split(' ').collect();
          if let Some(e) = toks.get(4).and_then(|t| fmt::parse_event(t)) { history.push(e); }
          let verdict = m.got.split(' ').next().unwrap_or("");
          if verdict.starts_with("viol:") {
            stats.monitor_violations += 1;
            let props: Vec<String> = verdict[5..].split(',').map(|s| s.to_string()).collect();
            findings.push(Finding { kind: "property".into(), properties: props, source: source.into(), layout: layout.clone(), history, state: node_state, request: m.req.clone(), impl_says: m.req.clone(), model_says: m.got.clone() });
          }
          else {
            // the ghost bookkeeping of the harness and of the Lean monitor disagree: a harness bug, reported as divergence
            stats.divergences += 1;
            findings.push(Finding { kind: "divergence".into(), properties: vec![], source: source.into(), layout: layout.clone(), history, state: node_state, request: m.req.clone(), impl_says: m.expected.clone(), model_says: m.got.clone() });
          }
        },
        KIND_MON | KIND_MONRA => {
          stats.monitor_violations += 1;
          // request: M <P> <V> <state> <event> <events> <rrepeat> <state'>
          let toks: Vec<&str> = m.req.split(' ').collect();
          if m.kind == KIND_MON { if let Some(e) = toks.get(4).and_then(|t| fmt::parse_event(t)) { history.push(e); } }
          let props: Vec<String> = if m.got.starts_with("viol:") { m.got[5..].split(',').map(|s| s.to_string()).collect() } else { vec![format!("monitor-reply:{}", m.got)] };
          findings.push(Finding { kind: "property".into(), properties: props, source: source.into(), layout: layout.clone(), history, state: node_state, request: m.req.clone(), impl_says: m.req.clone(), model_says: m.got.clone() });
        },
        _ => {
          stats.divergences += 1;
          let toks: Vec<&str> = m.req.split(' ').collect();
          if m.kind == KIND_STEP { if let Some(e) = toks.get(2).and_then(|t| fmt::parse_event(t)) { history.push(e); } }
          findings.push(Finding { kind: "divergence".into(), properties: vec![], source: source.into(), layout: layout.clone(), history, state: node_state, request: m.req.clone(), impl_says: m.expected.clone(), model_says: m.got.clone() });
        }
      }
    }
    // counts beyond the kept ones
    let kept = findings.len() as u64;
    let _ = kept;
  }
  stats.lean_requests = lean.sent;
  // keep at most two findings per (layout source, kind, tags): one violation shows up on many histories
  let mut kept: Vec<Finding> = Vec::new();
  for f in findings.drain(..) {
    let n = kept.iter().filter(|g| g.source == f.source && g.kind == f.kind && g.properties == f.properties).count();
    if n < 2 { kept.push(f); }
  }
  *findings = kept;
}

// C06 on the implementation: from `start` (a rest state, or the state right after release_all) and from
// a fresh mapper, feed the same events (breadth first over pairs, bounded) and compare the responses.
// Returns a history (continuation) on which they differ, with both responses.
pub fn pair_check(layout: &Layout, start: &VerifSnapshot, alphabet: &[KeyCode], max_pairs: usize, pairs_explored: &mut u64) -> Option<(Vec<Event>, String, String)> {
  let mut a = Mapper::for_layout(layout);
  let mut b = Mapper::for_layout(layout);
  let fresh = b.verif_snapshot();
  let mut queue: Vec<(VerifSnapshot, VerifSnapshot, u32, Option<Event>)> = vec![(clone_snap(start), fresh, 0, None)];
  let mut seen: std::collections::HashSet<String> = std::collections::HashSet::new();
  seen.insert(format!("{}#{}", fmt::state(layout, start), fmt::state(layout, &queue[0].1)));
  let mut head = 0;
  while head < queue.len() && queue.len() < max_pairs {
    let (sa, sb) = (clone_snap(&queue[head].0), clone_snap(&queue[head].1));
    let id = head as u32;
    head += 1;
    *pairs_explored += 1;
    if sa.input_pressed_keys.len() >= 3 { continue; }
    for k in alphabet {
      for pressed in [true, false] {
        let ev = if pressed { Event::Pressed(*k) } else { Event::Released(*k) };
        a.verif_restore(&sa);
        b.verif_restore(&sb);
        let ra = a.step(ev.clone());
        let rb = b.step(ev.clone());
        if ra != rb {
          let mut h = vec![ev.clone()];
          let mut cur = id;
          while let Some(e) = &queue[cur as usize].3 { h.push(e.clone()); cur = queue[cur as usize].2; }
          h.reverse();
          return Some((h, format!("{} {}", fmt::events(&ra.events), fmt::rrepeat(&ra.repeat)), format!("{} {}", fmt::events(&rb.events), fmt::rrepeat(&rb.repeat))));
        }
        let (na, nb) = (a.verif_snapshot(), b.verif_snapshot());
        let key = format!("{}#{}", fmt::state(layout, &na), fmt::state(layout, &nb));
        if seen.insert(key) { queue.push((na, nb, id, Some(ev))); }
      }
    }
  }
  None
}

pub fn layout_to_json(l: &Layout) -> serde_json::Value {
  serde_json::to_value(l).unwrap_or(serde_json::Value::Null)
}

pub fn finding_to_json(f: &Finding) -> serde_json::Value {
  serde_json::json!({
    "suite": "mapper",
    "kind": f.kind,
    "properties": f.properties,
    "source": f.source,
    "layout": fmt::layout(&f.layout),
    "layout_json": layout_to_json(&f.layout),
    "history": f.history.iter().map(fmt::event).collect::<Vec<_>>(),
    "history_human": fmt::events_human(&f.history),
    "state_before_last_event": f.state,
    "request": f.request,
    "implementation": f.impl_says,
    "model": f.model_says
  })
}

fn build_sources(opts: &Opts, rng: &mut Rng) -> Vec<(String, Layout, Vec<Vec<KeyCode>>)> {
  let thorough = opts.thorough();
  let mut res = Vec::new();
  let only = opts.get("only");
  let want = |name: &str| -> bool { match only { None => true, Some(o) => name.starts_with(o) } };

  for (name, l) in h_layouts::corpus_layouts() {
    if !want(&name) { continue; }
    let a = h_layouts::alphabets_for(&l, rng, 1, 8);
    res.push((name, l, a));
  }
  for (name, l) in h_layouts::readme_layouts() {
    if !want(&name) { continue; }
    let a = h_layouts::alphabets_for(&l, rng, if thorough { 6 } else { 2 }, 6);
    res.push((name, l, a));
  }
  for (name, l) in h_layouts::builtin_layouts() {
    if !want(&name) { continue; }
    let a = h_layouts::alphabets_for(&l, rng, if thorough { 24 } else { 4 }, 6);
    res.push((name, l, a));
  }
  if want("enum") && (thorough || opts.flag("enumerated")) {
    let ms = h_layouts::enumerated_mappings();
    // all 1 428 single-mapping layouts, and every `stride`-th of the 2.04 M ordered pairs (the offset
    // moves with the seed, so different seeds cover different pairs; stride 1 = the whole family)
    let stride = opts.num("enum-stride", 2503) as usize;
    let offset = (opts.num("seed", 1) as usize) % stride.max(1);
    let mut idx = 0usize;
    for m in &ms {
      res.push((format!("enum:1:{}", idx), Layout { mappings: vec![m.clone()] }, vec![]));
      idx += 1;
    }
    let mut c = 0usize;
    for a in &ms {
      for b in &ms {
        c += 1;
        if c % stride != offset { continue; }
        res.push((format!("enum:2:{}", c), Layout { mappings: vec![a.clone(), b.clone()] }, vec![]));
      }
    }
  }
  if want("random") {
    let n = opts.num("random", if thorough { 1200 } else { 600 });
    for i in 0..n {
      if i % 3 == 2 {
        res.push((format!("random:absrich:{}", i), h_layouts::absorbing_rich_layout(rng), vec![]));
        continue;
      }
      let flavor = match i % 4 { 0 => Flavor::Plain, 1 => Flavor::Plain, 2 => Flavor::Absorbing, _ => Flavor::Canonical };
      let l = h_layouts::random_layout(rng, flavor);
      let tag = match flavor { Flavor::Plain => "plain", Flavor::Absorbing => "abs", Flavor::Canonical => "canon" };
      res.push((format!("random:{}:{}", tag, i), l, vec![]));
    }
  }
  // alphabets for generated layouts: all layout keys + foreign ordinary + foreign modifier
  for (_, l, a) in res.iter_mut() {
    if a.is_empty() { *a = h_layouts::alphabets_for(l, rng, 1, 10); }
  }
  res
}

pub fn run(opts: &Opts) -> i32 {
  let seed = opts.num("seed", 1);
  let thorough = opts.thorough();
  let mut rng = Rng::new(seed);
  let sources = Arc::new(build_sources(opts, &mut rng));
  let max_held = opts.num("max-held", if thorough { 4 } else { 3 }) as usize;
  let max_states = opts.num("max-states", if thorough { 60000 } else { 4000 }) as usize;
  // generated layouts (random, enumerated) are many and small: a lower per-layout cap keeps the thorough
  // tier at minutes instead of days
  let max_states_generated = opts.num("max-states-generated", if thorough { 8000 } else { 4000 }) as usize;
  let jobs = opts.num("jobs", 8) as usize;
  let out_dir = opts.get_or("out", "/verif/harness/tmp/mapper").to_string();
  let _ = std::fs::create_dir_all(&out_dir);

  let next = Arc::new(AtomicUsize::new(0));
  let total = Arc::new(Mutex::new((Stats::default(), Vec::<Finding>::new())));
  let mut handles = Vec::new();
  for _ in 0..jobs {
    let sources = Arc::clone(&sources);
    let next = Arc::clone(&next);
    let total = Arc::clone(&total);
    handles.push(std::thread::spawn(move || {
      let mut lean = Lean::start();
      let mut stats = Stats::default();
      let mut findings = Vec::new();
      // is_action_key on every key code, once per worker 0 is enough; cheap, so every worker does it
      loop {
        let i = next.fetch_add(1, Ordering::SeqCst);
        if i >= sources.len() { break; }
        let (name, layout, alphabets) = &sources[i];
        stats.layouts += 1;
        let class = name.split(':').next().unwrap_or("?").to_string();
        let before = stats.transitions;
        let cap = if class == "random" || class == "enum" { max_states_generated } else { max_states };
        for a in alphabets {
          explore(&mut lean, name, layout, a, max_held, cap, &mut stats, &mut findings);
        }
        *stats.by_source.entry(class).or_insert(0) += stats.transitions - before;
        if findings.len() > 150 { break; }
      }
      stats.lean_requests = lean.sent;
      lean.finish();
      let mut t = total.lock().unwrap();
      t.0.add(&stats);
      t.0.lean_requests += 0;
      t.1.extend(findings);
    }));
  }
  for h in handles { h.join().expect("worker panicked"); }

  // is_action_key for every key code the tool knows (and every other u16): model vs implementation
  let mut ak_div = 0u64;
  {
    let mut lean = Lean::start();
    for c in 0..=767i64 {
      if let Some(k) = fmt::key_from_code(c) {
        let real = Mapper::verif_is_action_key(&k);
        lean.expect(KIND_AK, c as u64, format!("AK {}", c), (if real { "1" } else { "0" }).to_string());
      }
    }
    let (n, ms) = lean.sync();
    ak_div += n;
    for m in ms { eprintln!("is_action_key disagreement: {:?}", m); }
    lean.finish();
  }

  let guard = total.lock().unwrap();
  let (stats, findings) = (&guard.0, &guard.1);
  let mut lines = Vec::new();
  // what is written out: up to 4 findings of every distinct tag set (so that a flood of one kind, or of the divergences
  // a change causes on every layout, cannot push the one finding of another property out of the list), property
  // findings first, then up to 12 divergences
  let mut chosen: Vec<&Finding> = Vec::new();
  {
    let mut per_tag: HashMap<String, usize> = HashMap::new();
    for f in findings.iter().filter(|f| f.kind != "divergence") {
      let c = per_tag.entry(format!("{}:{}", f.kind, f.properties.join(","))).or_insert(0);
      if *c < 4 { *c += 1; chosen.push(f); }
    }
    chosen.extend(findings.iter().filter(|f| f.kind == "divergence").take(12));
  }
  for (i, f) in chosen.iter().enumerate() {
    if i >= 120 { break; }
    let path = format!("{}/finding_{}_{}.json", out_dir, seed, i);
    std::fs::write(&path, serde_json::to_string_pretty(&finding_to_json(f)).unwrap()).unwrap();
    match f.kind.as_str() {
      "property" => lines.push(format!("FINDING kind=property properties={} replay={}", f.properties.join(","), path)),
      "impl-panic" => lines.push(format!("FINDING kind=impl-panic properties=C14 replay={}", path)),
      _ => lines.push(format!("FINDING kind=divergence properties=- replay={}", path))
    }
  }
  if ak_div > 0 { lines.push("FINDING kind=divergence properties=- replay=is_action_key".to_string()); }
  for l in &lines { println!("{}", l); }

  let stats_json = serde_json::json!({
    "suite": "mapper", "seed": seed, "tier": if thorough { "thorough" } else { "quick" },
    "layouts": stats.layouts, "explorations": stats.explorations, "states": stats.states,
    "transitions": stats.transitions, "release_all_calls": stats.relall,
    "firing_steps": stats.firing_steps, "ignored_events": stats.ignored_events,
    "passthrough_steps": stats.passthrough_steps, "states_with_absorbed_keys": stats.absorbing_states,
    "states_with_two_or_more_active_mappings": stats.multi_active_states,
    "repeat_requests": stats.repeat_requests, "capped_explorations": stats.capped_explorations,
    "divergences": stats.divergences + ak_div, "monitor_violations": stats.monitor_violations,
    "impl_panics": stats.impl_panics, "builtin_readme_unittest_explorations_checked_inside_H1_H2": stats.h12_layouts, "c06_pair_states_compared_with_fresh_mapper": stats.c06_pairs, "c08_steps_with_pending_obligation": stats.c08_obligation_steps, "non_wf_layouts_checked_for_panic": stats.nonwf_layouts,
    "transitions_by_source": stats.by_source, "max_held": max_held, "max_states_per_exploration": max_states,
    "samples": stats.samples, "findings": findings.len()
  });
  if let Some(p) = opts.get("stats") {
    std::fs::write(p, serde_json::to_string_pretty(&stats_json).unwrap()).unwrap();
  }
  println!("STATS {}", stats_json);
  if findings.is_empty() && ak_div == 0 { 0 } else { 1 }
}

// ---- replay of a finding / witness on the current tree ----
// File: JSON with "layout" (protocol text) and "history" (list of event tokens, "RA" = release_all).
// Prints each step (implementation output, model agreement, monitor verdict); exit 1 if any monitor
// is violated or the model disagrees.
pub fn replay(opts: &Opts) -> i32 {
  let path = match opts.get("file") { Some(p) => p, None => { eprintln!("--file required"); return 2; } };
  let text = std::fs::read_to_string(path).expect("cannot read replay file");
  let v: serde_json::Value = serde_json::from_str(&text).expect("replay file is not JSON");
  let layout = fmt::parse_layout(v["layout"].as_str().expect("layout")).expect("layout text");
  let history: Vec<String> = v["history"].as_array().expect("history").iter().map(|x| x.as_str().unwrap().to_string()).collect();
  let mut lean = Lean::start();
  let wf = lean.ask(&format!("L {}", fmt::layout(&layout)));
  let made = catch_unwind(AssertUnwindSafe(|| Mapper::for_layout(&layout)));
  let mut mapper = match made {
    Ok(m) => m,
    Err(_) => { println!("for_layout: implementation panics; model says {}", wf); lean.finish(); return 1; }
  };
  let mut p: Vec<KeyCode> = vec![];
  let mut vset: Vec<KeyCode> = vec![];
  let mut obls: Vec<Obl> = vec![];
  let mut bad = 0;
  for (i, tok) in history.iter().enumerate() {
    let before = mapper.verif_snapshot();
    let before_s = fmt::state(&layout, &before);
    if tok == "RA" {
      let evs = mapper.release_all();
      let after_s = fmt::state(&layout, &mapper.verif_snapshot());
      let out = format!("{} {}", fmt::events(&evs), after_s);
      let model = lean.ask(&format!("RA {}", before_s));
      let mon = lean.ask(&format!("MRA {} {} {} {}", fmt::keys(&p), fmt::keys(&vset), before_s, out));
      println!("step {} release_all: impl emits [{}]; model {}; monitors {}", i, fmt::events_human(&evs), if model == out { "agrees" } else { "DISAGREES" }, mon);
      if model != out || mon != "ok" { bad += 1; }
      vset = fold_events(&vset, &evs);
      continue;
    }
    let ev = fmt::parse_event(tok).expect("event token");
    let res = match catch_unwind(AssertUnwindSafe(|| mapper.step(ev.clone()))) {
      Ok(r) => r,
      Err(_) => { println!("step {} {}: implementation PANICS", i, tok); bad += 1; break; }
    };
    let after_s = fmt::state(&layout, &mapper.verif_snapshot());
    let out = format!("{} {} {}", fmt::events(&res.events), fmt::rrepeat(&res.repeat), after_s);
    let model = lean.ask(&format!("S {} {}", before_s, tok));
    let mut mon = lean.ask(&format!("M {} {} {} {} {}", fmt::keys(&p), fmt::keys(&vset), before_s, tok, out));
    {
      let mut p2 = p.clone();
      match &ev { Event::Pressed(k) => { if !p2.contains(k) { p2.push(*k); p2.sort(); } }, Event::Released(k) => { p2.retain(|x| x != k); } }
      let after = mapper.verif_snapshot();
      let obls2 = next_obls(&layout, &obls, &before, &after, &ev, &p2);
      if !obls.is_empty() || !obls2.is_empty() {
        let r8 = lean.ask(&format!("M8 {} {} {} {} {} {}", fmt::keys(&p), fmt::keys(&vset), before_s, tok, out, obls_text(&obls)));
        let verdict = r8.split(' ').next().unwrap_or("").to_string();
        if verdict != "ok" { mon = if mon == "ok" { verdict } else { format!("{},{}", mon, verdict.trim_start_matches("viol:")) }; }
      }
      obls = obls2;
    }
    println!("step {} {}: impl emits [{}] repeat {}; model {}; monitors {}", i, fmt::events_human(&[ev.clone()]), fmt::events_human(&res.events), fmt::rrepeat(&res.repeat), if model == out { "agrees".to_string() } else { format!("DISAGREES ({})", model) }, mon);
    if model != out || mon != "ok" { bad += 1; }
    match &ev {
      Event::Pressed(k) => { if !p.contains(k) { p.push(*k); p.sort(); } },
      Event::Released(k) => { p.retain(|x| x != k); }
    }
    vset = fold_events(&vset, &res.events);
  }
  lean.finish();
  if bad > 0 { println!("REPLAY: {} step(s) violate a monitor or disagree with the model", bad); 1 } else { println!("REPLAY: clean"); 0 }
}
