// Suite "load": the layout loader (src/layout_parsing_formatting.rs, src/fancy_layout_interpreting.rs,
// src/layout_loading.rs, serde derives of src/keys.rs) against the Lean model
// (TmVerif/Model/{Json,Fancy,Keys,Parse,Convert,Load}.lean), properties C13, C14, C15.
//
//   a. built-in layouts, ```json blocks of /repo/README.md, /verif/corpus/layouts/*.json:
//      real parse_layout_from_json + convert (under catch_unwind) vs model command LOAD (and PARSE)
//   b. a type-directed generator of layout programs (mostly valid) and a stream of structure-aware
//      mutations of them (malformed): LOAD / PARSE compared, distribution measured
//   c. C14 on the implementation: nothing panics; accepted layouts are well-formed, install in the
//      real Mapper and survive a random key history; a raw byte stream through the real
//      load_layout_from_file (truncations, deep nesting in a child process, huge numbers, invalid
//      UTF-8, BOM, duplicate keys)
//   d. C15 on the implementation: serde_json::to_value(&layout) vs model SER; the real round trip
//      to_string_pretty -> from_str -> parse -> convert; every key name; KEY vs parse_key_code
//   e. exhaustive Unicode case-mapping claims the model relies on; Ord = discriminant order
//   f. C13 on the implementation: the declarative expansion (model command C13X) vs the real output,
//      and respelled programs (bare string <-> one-element array, row / repeat names in other case)
//      must convert identically
//
// A JSON value travels as one token (see TmVerif/Driver/LoadCmd.lean):
//   n | t | f | i<int> | x (float) | s<str> | a(<v>,..) | o(<str>:<v>,..)   <str> = hex code points joined by '.'

use crate::h_util::{Opts, Rng};
use crate::h_lean::Lean;
use crate::h_fmt as fmt;
use crate::keys::{Event, KeyCode, Layout, Mapping, Repeat};
use crate::fancy_keys as fk;
use crate::key_transforms::Mapper;
use serde_json::{json, Map, Value};
use std::collections::{BTreeMap, HashSet};
use std::panic::{catch_unwind, AssertUnwindSafe};

const KIND_LOAD: u8 = 1;
const KIND_PARSE: u8 = 2;
const KIND_SER: u8 = 3;
const KIND_KEY: u8 = 4;
const KIND_C15: u8 = 5;
const KIND_C13: u8 = 6;
const KIND_C13X: u8 = 7;

const MAX_REPLAYS: usize = 20;

// ---------- token encoding ----------

pub fn enc_str(s: &str) -> String {
  let mut out = String::with_capacity(s.len() * 3);
  for (i, c) in s.chars().enumerate() {
    if i > 0 { out.push('.'); }
    out.push_str(&format!("{:x}", c as u32));
  }
  out
}

pub fn enc_json(v: &Value, out: &mut String) {
  match v {
    Value::Null => out.push('n'),
    Value::Bool(true) => out.push('t'),
    Value::Bool(false) => out.push('f'),
    Value::Number(n) => {
      if let Some(i) = n.as_i64() { out.push_str(&format!("i{}", i)); }
      else if let Some(u) = n.as_u64() { out.push_str(&format!("i{}", u)); }
      else { out.push('x'); }
    },
    Value::String(s) => { out.push('s'); out.push_str(&enc_str(s)); },
    Value::Array(xs) => {
      out.push_str("a(");
      for (i, x) in xs.iter().enumerate() { if i > 0 { out.push(','); } enc_json(x, out); }
      out.push(')');
    },
    Value::Object(m) => {
      out.push_str("o(");
      for (i, (k, x)) in m.iter().enumerate() {
        if i > 0 { out.push(','); }
        out.push_str(&enc_str(k)); out.push(':'); enc_json(x, out);
      }
      out.push(')');
    }
  }
}

pub fn token(v: &Value) -> String { let mut s = String::new(); enc_json(v, &mut s); s }

// ---------- the implementation under catch_unwind ----------

#[derive(Clone)]
pub enum Real { Ok(Layout), Err(String), Panic(String) }

fn panic_text(e: Box<dyn std::any::Any + Send>) -> String {
  if let Some(s) = e.downcast_ref::<&str>() { s.to_string() }
  else if let Some(s) = e.downcast_ref::<String>() { s.clone() }
  else { "<panic>".to_string() }
}

pub fn real_parse(v: &Value) -> Result<Result<fk::Layout, String>, String> {
  catch_unwind(AssertUnwindSafe(|| crate::layout_parsing_formatting::parse_layout_from_json(v))).map_err(panic_text)
}

pub fn real_load(v: &Value) -> Real {
  match catch_unwind(AssertUnwindSafe(|| {
    crate::fancy_layout_interpreting::convert(&crate::layout_parsing_formatting::parse_layout_from_json(v)?)
  })) {
    Ok(Ok(l)) => Real::Ok(l),
    Ok(Err(e)) => Real::Err(e),
    Err(p) => Real::Panic(panic_text(p))
  }
}

fn show_real(r: &Real) -> String {
  match r {
    Real::Ok(l) => format!("ok {}", fmt::layout(l)),
    Real::Err(_) => "error".to_string(),
    Real::Panic(_) => "panic".to_string()
  }
}

fn describe_real(r: &Real) -> String {
  match r {
    Real::Ok(l) => format!("ok {}", fmt::layout(l)),
    Real::Err(e) => format!("error: {}", e),
    Real::Panic(e) => format!("PANIC: {}", e)
  }
}

fn is_wf(l: &Layout) -> bool {
  l.mappings.iter().all(|m| {
    !m.from.is_empty()
      && (0..m.from.len()).all(|i| !m.from[i+1..].contains(&m.from[i]))
      && (0..m.to.len()).all(|i| !m.to[i+1..].contains(&m.to[i]))
  })
}

// ---------- error sites ----------

const ERROR_SITES: [&str; 47] = [
  "is not defined", "absorbed modifier", "`repeat` not allowed for alias", "`absorbing` not allowed for alias",
  "Alias mapping cannot use alias modifier", "Can't map from zero keys", "Modifier must be a string",
  "`from` key must be a string or an object", "`row` must be a string", "Row must be specified by single key",
  "Don't know row", "Don't understand `from` object", "`to` should be a string, array, or object",
  "`to` should be object with key `letters`", "not allowed in this position", "Cannot map row to an empty array",
  "`letters` must be a string", "expected, for example, `letters`", "`to` object of unrecognized form",
  "A string (keycode) was expected", "A real key was expected", "Unknown key code", "Unrecognized repeat style",
  "`Special` repeat must have attributes", "`Special` repeat must be an object", "Unknown repeat style",
  "Invalid delay_ms number", "delay_ms must be a number", "Invalid interval_ms number", "interval_ms must be a number",
  "`absorbing` must be a list of modifiers", "Cannot have a repeat-only row mapping", "Mapping must have \"from\" and \"to\"",
  "Each \"mapping\" must be an object", "\"mappings\" must be an array", "Layout must have a single field",
  "Layout JSON must be an object", "} has more letters in its `repeat`", "Row mapping has more letters in its `repeat`",
  "lists the same key twice in `from`", "lists the same key twice in `to`", "Alias used on RHS", "is undefined",
  "Don't have data for row", "Don't know which keycode is at index", "Don't know how to produce char", "json:"
];

fn error_site(msg: &str) -> &'static str {
  // the message of a malformed mapping embeds the mapping's JSON; the site's phrase is what follows it,
  // so look at the tail first
  let tail_start = msg.rfind("}: ").map(|i| i + 1).unwrap_or(0);
  let tail = &msg[tail_start..];
  for s in ERROR_SITES.iter() { if tail.contains(s) { return s; } }
  for s in ERROR_SITES.iter() { if msg.contains(s) { return s; } }
  "<other>"
}

// ---------- findings ----------

struct Finding {
  kind: &'static str,            // "divergence" | "property" | "selfcheck"
  properties: &'static str,      // "-" | "C13" | "C14" | "C15"
  what: String,
  input: String,                 // JSON text (or a description for byte cases)
  implementation: String,
  model: String
}

fn finding_json(f: &Finding) -> Value {
  json!({ "suite": "load", "kind": f.kind, "properties": f.properties, "what": f.what, "input": f.input,
          "implementation": f.implementation, "model": f.model })
}

// ---------- one case: a Value given to loader and model ----------

struct Case {
  source: String,
  value: Value,
  real: Real
}

// ---------- generator of layout programs ----------

const MOD_KEYS: [&str; 10] = ["LEFTSHIFT", "RIGHTSHIFT", "LEFTCTRL", "RIGHTCTRL", "LEFTALT", "RIGHTALT", "LEFTMETA", "CAPSLOCK", "TAB", "RIGHTMETA"];
const ORD_KEYS: [&str; 22] = ["A", "S", "D", "F", "J", "K", "SEMICOLON", "Q", "Z", "1", "2", "K3", "0", "K0", "F24", "ESC", "SPACE", "GRAVE", "COMMA", "BACKSLASH", "KP5", "E"];
const ALIAS_NAMES: [&str; 5] = ["@a", "@b", "@sym", "@shift", "@"];
const ROW_SPELLINGS: [&str; 8] = ["`", "1", "Q", "A", "Z", "q", "a", "z"];

fn num_from_text(t: &str) -> Value { serde_json::from_str(t).expect("number literal") }

const NUMBER_FORMS: [&str; 16] = ["0", "30", "180", "-1", "-180", "2147483647", "2147483648", "4294967301", "-2147483649",
  "9223372036854775807", "9223372036854775808", "18446744073709551615", "18446744073709551616", "1.5", "1e3", "-0"];

#[derive(Default, Clone)]
struct Dist {
  programs: u64,
  kinds_generated: BTreeMap<String, u64>,
  features: BTreeMap<String, u64>
}

impl Dist {
  fn kind(&mut self, k: &str) { *self.kinds_generated.entry(k.to_string()).or_insert(0) += 1; }
  fn feat(&mut self, k: &str) { *self.features.entry(k.to_string()).or_insert(0) += 1; }
}

struct Gen<'a> {
  rng: &'a mut Rng,
  dist: &'a mut Dist
}

fn weighted(rng: &mut Rng, w: &[usize]) -> usize {
  let total: usize = w.iter().sum();
  let mut x = rng.below(total);
  for (i, wi) in w.iter().enumerate() { if x < *wi { return i; } x -= wi; }
  w.len() - 1
}

struct AliasDef { name: String }

// a mapping already generated, remembered so that repeat-only entries can aim at its trigger
enum Earlier { Single { from: Vec<Value> }, Row { mods: Vec<Value>, row: String } }

fn row_key_names(row: &str) -> Vec<String> {
  let r = match row.to_uppercase().as_str() {
    "`" => fk::Row::USQuertyGrave, "1" => fk::Row::USQuerty1, "Q" => fk::Row::USQuertyQ, "A" => fk::Row::USQuertyA, _ => fk::Row::USQuertyZ
  };
  crate::physical_keyboard_layouts::US_KEYBOARD_LAYOUT.get(&r).unwrap().iter().map(|k| format!("{:?}", k)).collect()
}

impl<'a> Gen<'a> {
  fn key_name(&mut self, pool: &[&str]) -> String { self.rng.pick(pool).to_string() }

  fn distinct_keys(&mut self, n: usize, mod_bias: usize) -> Vec<String> {
    let mut res: Vec<String> = Vec::new();
    let mut guard = 0;
    while res.len() < n && guard < 50 {
      guard += 1;
      let k = if self.rng.chance(mod_bias, 100) { self.key_name(&MOD_KEYS) } else { self.key_name(&ORD_KEYS) };
      if !res.contains(&k) { res.push(k); }
    }
    res
  }

  // "X" or ["X"]; a longer list is always an array
  fn spell_list(&mut self, mut elems: Vec<Value>) -> Value {
    if elems.len() == 1 && self.rng.chance(2, 3) { self.dist.feat("bare (not one-element array)"); elems.remove(0) }
    else { if elems.len() == 1 { self.dist.feat("one-element array"); } Value::Array(elems) }
  }

  fn alias_def(&mut self, name: &str) -> Value {
    let nk = 1 + weighted(self.rng, &[70, 22, 8]);
    let keys = self.distinct_keys(nk, 70);
    self.dist.feat(&format!("alias definition with {} key(s)", nk));
    let from = self.spell_list(keys.into_iter().map(Value::String).collect());
    let nextra = weighted(self.rng, &[80, 14, 6]);
    let mut to: Vec<Value> = self.distinct_keys(nextra, 30).into_iter().map(Value::String).collect();
    if nextra > 0 { self.dist.feat("alias definition with extra output keys"); }
    to.push(Value::String(name.to_string()));
    let to = self.spell_list(to);
    json!({ "from": from, "to": to })
  }

  // 0..3 modifiers, alias or plain
  fn modifiers(&mut self, aliases: &[AliasDef]) -> Vec<Value> {
    let n = weighted(self.rng, &[25, 45, 22, 8]);
    let mut res: Vec<Value> = Vec::new();
    let mut n_alias = 0;
    for _ in 0..n {
      if !aliases.is_empty() && self.rng.chance(60, 100) {
        let unused: Vec<&AliasDef> = aliases.iter().filter(|a| !res.contains(&Value::String(a.name.clone()))).collect();
        let a = Value::String(if !unused.is_empty() && self.rng.chance(9, 10) { self.rng.pick(&unused).name.clone() } else { self.rng.pick(aliases).name.clone() });
        if res.contains(&a) { if self.rng.chance(1, 10) { self.dist.feat("alias used twice in a trigger"); res.push(a); n_alias += 1; } }
        else { res.push(a); n_alias += 1; }
      }
      else if aliases.is_empty() && self.rng.chance(1, 60) { self.dist.feat("undefined alias in trigger"); res.push(json!("@undefined")); }
      else {
        let k = Value::String(self.key_name(&MOD_KEYS));
        if !res.contains(&k) || self.rng.chance(1, 20) { res.push(k); }
      }
    }
    self.dist.feat(&format!("mapping with {} modifier(s)", res.len()));
    self.dist.feat(&format!("mapping with {} alias modifier(s)", n_alias));
    res
  }

  // output-side modifiers: mostly aliases / keys chosen on the trigger side
  fn out_modifiers(&mut self, from_mods: &[Value], aliases: &[AliasDef]) -> Vec<Value> {
    let n = weighted(self.rng, &[50, 38, 12]);
    let mut res: Vec<Value> = Vec::new();
    for _ in 0..n {
      let used_aliases: Vec<&Value> = from_mods.iter().filter(|m| m.as_str().map(|s| s.starts_with('@')).unwrap_or(false)).collect();
      let m = if !used_aliases.is_empty() && self.rng.chance(55, 100) { self.dist.feat("output alias used on trigger side"); (*self.rng.pick(&used_aliases)).clone() }
        else if !aliases.is_empty() && self.rng.chance(6, 100) { self.dist.feat("output alias maybe NOT on trigger side"); Value::String(self.rng.pick(aliases).name.clone()) }
        else { Value::String(self.key_name(&MOD_KEYS)) };
      if !res.contains(&m) || self.rng.chance(1, 25) { res.push(m); }
    }
    res
  }

  fn number(&mut self) -> Value {
    match weighted(self.rng, &[72, 24, 2, 2]) {
      0 => json!(self.rng.below(500) as i64),
      1 => { let t = *self.rng.pick(&NUMBER_FORMS); self.dist.feat(&format!("number {}", t)); num_from_text(t) },
      2 => { self.dist.feat("number given as string"); json!("180") },
      _ => { self.dist.feat("number null/bool"); if self.rng.chance(1, 2) { Value::Null } else { json!(true) } }
    }
  }

  fn repeat_word(&mut self) -> Value {
    let w = if self.rng.chance(88, 100) { *self.rng.pick(&["Normal", "normal", "NORMAL", "nOrMaL", "Disabled", "disabled", "DISABLED", "dISabled"]) }
      else { *self.rng.pick(&["Normal ", "special", "Dısabled", "\u{212a}normal", "", "Special"]) };
    self.dist.feat(&format!("repeat \"{}\"", w));
    json!(w)
  }

  fn single_keys(&mut self, from_mods: &[Value], aliases: &[AliasDef]) -> Value {
    match weighted(self.rng, &[10, 35, 15, 40]) {
      0 => { self.dist.feat("keys []"); json!([]) },
      1 => { self.dist.feat("keys bare"); Value::String(self.key_name(&ORD_KEYS)) },
      2 => { self.dist.feat("keys [k]"); json!([self.key_name(&ORD_KEYS)]) },
      _ => {
        let mut v = self.out_modifiers(from_mods, aliases);
        let k = if self.rng.chance(1, 8) { self.key_name(&MOD_KEYS) } else { self.key_name(&ORD_KEYS) };
        v.push(Value::String(k));
        self.dist.feat(&format!("keys with {} output modifier(s)", v.len() - 1));
        Value::Array(v)
      }
    }
  }

  fn single_repeat(&mut self, from_mods: &[Value], aliases: &[AliasDef]) -> Value {
    if self.rng.chance(45, 100) { return self.repeat_word(); }
    self.dist.feat("repeat Special (single)");
    let keys = self.single_keys(from_mods, aliases);
    json!({ "Special": { "keys": keys, "delay_ms": self.number(), "interval_ms": self.number() } })
  }

  fn letters(&mut self, row_len: usize, max_len: usize) -> String {
    let n = if self.rng.chance(5, 100) { self.dist.feat("letters longer than the row"); row_len + 1 + self.rng.below(3) } else { self.rng.below(max_len.min(row_len) + 1) };
    let mut s = String::new();
    for _ in 0..n {
      match weighted(self.rng, &[35, 62, 3]) {
        0 => s.push(' '),
        1 => s.push((33 + self.rng.below(94)) as u8 as char),
        _ => { self.dist.feat("letters with an unknown character"); s.push(*self.rng.pick(&['é', '\t', '€', '\u{7f}', '\u{a0}', 'ſ', '\u{1f600}'])); }
      }
    }
    s
  }

  fn row_to(&mut self, letters: &str, from_mods: &[Value], aliases: &[AliasDef]) -> Value {
    let obj = json!({ "letters": letters });
    match weighted(self.rng, &[70, 10, 20]) {
      0 => obj,
      1 => json!([obj]),
      _ => { let mut v = self.out_modifiers(from_mods, aliases); self.dist.feat(&format!("row output with {} modifier(s)", v.len())); v.push(obj); Value::Array(v) }
    }
  }

  fn absorbing(&mut self, from_mods: &[Value], aliases: &[AliasDef]) -> Option<Value> {
    match weighted(self.rng, &[55, 15, 25, 5]) {
      0 => None,
      1 => { if from_mods.is_empty() { return None; } self.dist.feat("absorbing as string"); Some(self.rng.pick(from_mods).clone()) },
      2 => {
        let v: Vec<Value> = from_mods.iter().filter(|_| self.rng.chance(2, 3)).cloned().collect();
        self.dist.feat(&format!("absorbing array of {}", v.len()));
        Some(Value::Array(v))
      },
      _ => {
        self.dist.feat("absorbing maybe not in from");
        if !aliases.is_empty() && self.rng.chance(1, 2) { Some(json!([self.rng.pick(aliases).name.clone()])) } else { Some(json!(self.key_name(&MOD_KEYS))) }
      }
    }
  }

  fn single(&mut self, aliases: &[AliasDef], earlier: &mut Vec<Earlier>) -> Value {
    let mods = self.modifiers(aliases);
    let key = self.key_name(&ORD_KEYS);
    let mut from_elems = mods.clone();
    from_elems.push(Value::String(key));
    earlier.push(Earlier::Single { from: from_elems.clone() });
    let from = self.spell_list(from_elems);
    let to = self.single_keys(&mods, aliases);
    let mut m = Map::new();
    m.insert("from".to_string(), from);
    m.insert("to".to_string(), to);
    if self.rng.chance(40, 100) { m.insert("repeat".to_string(), self.single_repeat(&mods, aliases)); } else { self.dist.feat("repeat missing"); }
    if let Some(a) = self.absorbing(&mods, aliases) { m.insert("absorbing".to_string(), a); }
    Value::Object(m)
  }

  fn row(&mut self, aliases: &[AliasDef], earlier: &mut Vec<Earlier>) -> Value {
    let mods = self.modifiers(aliases);
    let row = if self.rng.chance(2, 100) { self.dist.feat("bad row name"); self.rng.pick(&["X", "QQ", "", "ｑ", "2"]).to_string() } else { self.rng.pick(&ROW_SPELLINGS).to_string() };
    self.dist.feat(&format!("row {}", row));
    let row_len = row_key_names(&row).len();
    earlier.push(Earlier::Row { mods: mods.clone(), row: row.clone() });
    let mut from_elems = mods.clone();
    from_elems.push(json!({ "row": row }));
    let from = self.spell_list(from_elems);
    let letters = self.letters(row_len, row_len);
    let to = self.row_to(&letters, &mods, aliases);
    let mut m = Map::new();
    m.insert("from".to_string(), from);
    m.insert("to".to_string(), to);
    if self.rng.chance(40, 100) {
      if self.rng.chance(40, 100) { m.insert("repeat".to_string(), self.repeat_word()); }
      else {
        self.dist.feat("repeat Special (row)");
        let n_to = letters.chars().count();
        let rl = if self.rng.chance(10, 100) { self.dist.feat("row repeat letters longer than to"); let l = self.letters(row_len, row_len); format!("{}{}", letters, if l.is_empty() { "x".to_string() } else { l }) } else { self.letters(row_len, n_to) };
        let keys = match weighted(self.rng, &[60, 10, 22, 4, 4]) {
          0 => json!({ "letters": rl }),
          1 => json!([{ "letters": rl }]),
          2 => { let mut v = self.out_modifiers(&mods, aliases); v.push(json!({ "letters": rl })); Value::Array(v) },
          3 => { self.dist.feat("row repeat keys not letters"); json!("F24") },
          _ => { self.dist.feat("row repeat keys []"); json!([]) }
        };
        m.insert("repeat".to_string(), json!({ "Special": { "keys": keys, "delay_ms": self.number(), "interval_ms": self.number() } }));
      }
    } else { self.dist.feat("repeat missing"); }
    if let Some(a) = self.absorbing(&mods, aliases) { m.insert("absorbing".to_string(), a); }
    Value::Object(m)
  }

  fn repeat_only(&mut self, aliases: &[AliasDef], earlier: &mut Vec<Earlier>) -> Value {
    let choice = if earlier.is_empty() { 2 } else { weighted(self.rng, &[55, 25, 20]) };
    let (mods, from_elems): (Vec<Value>, Vec<Value>) = match choice {
      2 => {
        self.dist.feat("repeat-only: fresh trigger");
        let mods = self.modifiers(aliases);
        let mut f = mods.clone(); f.push(Value::String(self.key_name(&ORD_KEYS)));
        (mods, f)
      },
      _ => {
        let i = self.rng.below(earlier.len());
        match &earlier[i] {
          Earlier::Single { from } => {
            self.dist.feat("repeat-only: trigger of an earlier single mapping");
            let mut mods: Vec<Value> = from[..from.len()-1].to_vec();
            if mods.len() >= 2 && self.rng.chance(1, 2) { self.dist.feat("repeat-only: modifiers permuted"); mods.reverse(); }
            let mut f = mods.clone(); f.push(from[from.len()-1].clone());
            (mods, f)
          },
          Earlier::Row { mods, row } => {
            self.dist.feat("repeat-only: trigger inside an earlier row mapping");
            let names = row_key_names(row);
            let k = self.rng.pick(&names).clone();
            let k = if k.len() == 2 && k.starts_with('K') && self.rng.chance(1, 2) { k[1..].to_string() } else { k };
            let mods = mods.clone();
            let mut f = mods.clone(); f.push(Value::String(k));
            (mods, f)
          }
        }
      }
    };
    let from = self.spell_list(from_elems);
    let rep = self.single_repeat(&mods, aliases);
    json!({ "from": from, "repeat": rep })
  }

  fn program(&mut self) -> Value {
    self.dist.programs += 1;
    let n_alias = weighted(self.rng, &[20, 40, 30, 10]);
    self.dist.feat(&format!("program with {} alias name(s)", n_alias));
    let mut aliases: Vec<AliasDef> = Vec::new();
    let mut mappings: Vec<Value> = Vec::new();
    for _ in 0..n_alias {
      let name = loop { let n = self.rng.pick(&ALIAS_NAMES).to_string(); if !aliases.iter().any(|a| a.name == n) { break n; } };
      let ndefs = 1 + weighted(self.rng, &[40, 45, 15]);
      self.dist.feat(&format!("alias with {} definition(s)", ndefs));
      for _ in 0..ndefs { mappings.push(self.alias_def(&name)); self.dist.kind("alias"); }
      aliases.push(AliasDef { name });
    }
    let n = 1 + weighted(self.rng, &[25, 30, 22, 13, 10]);
    let mut earlier: Vec<Earlier> = Vec::new();
    for _ in 0..n {
      match weighted(self.rng, &[45, 35, 20]) {
        0 => { mappings.push(self.single(&aliases, &mut earlier)); self.dist.kind("single"); },
        1 => { mappings.push(self.row(&aliases, &mut earlier)); self.dist.kind("row"); },
        _ => { mappings.push(self.repeat_only(&aliases, &mut earlier)); self.dist.kind("repeat-only"); }
      }
    }
    // alias definitions are usually first; sometimes anywhere (the loader does not care about their position)
    if self.rng.chance(1, 5) && mappings.len() >= 2 {
      self.dist.feat("alias definitions not first");
      for i in (1..mappings.len()).rev() { let j = self.rng.below(i + 1); mappings.swap(i, j); }
    }
    json!({ "mappings": mappings })
  }
}

// ---------- structure-aware mutations (the malformed stream) ----------

// every node of the tree, as a path of steps
#[derive(Clone)]
enum Step { Idx(usize), Key(String) }

fn collect_paths(v: &Value, cur: &mut Vec<Step>, out: &mut Vec<Vec<Step>>) {
  out.push(cur.clone());
  match v {
    Value::Array(xs) => for (i, x) in xs.iter().enumerate() { cur.push(Step::Idx(i)); collect_paths(x, cur, out); cur.pop(); },
    Value::Object(m) => for (k, x) in m.iter() { cur.push(Step::Key(k.clone())); collect_paths(x, cur, out); cur.pop(); },
    _ => ()
  }
}

fn node_mut<'v>(v: &'v mut Value, path: &[Step]) -> &'v mut Value {
  let mut cur = v;
  for s in path {
    cur = match s {
      Step::Idx(i) => &mut cur.as_array_mut().unwrap()[*i],
      Step::Key(k) => cur.as_object_mut().unwrap().get_mut(k).unwrap()
    };
  }
  cur
}

fn garbage(rng: &mut Rng, depth: usize) -> Value {
  match rng.below(if depth == 0 { 8 } else { 11 }) {
    0 => Value::Null, 1 => json!(true), 2 => json!(false), 3 => json!(rng.below(100) as i64),
    4 => json!(1.5), 5 => json!(""), 6 => json!("@"), 7 => json!("A"),
    8 => Value::Array((0..rng.below(3)).map(|_| garbage(rng, depth - 1)).collect()),
    9 => { let mut m = Map::new(); for _ in 0..rng.below(3) { let k = rng.pick(&["from", "to", "row", "letters", "Special", "keys", "x", ""]).to_string(); m.insert(k, garbage(rng, depth - 1)); } Value::Object(m) },
    _ => { let mut v = json!("Z"); for _ in 0..(5 + rng.below(40)) { v = if rng.chance(1, 2) { json!([v]) } else { json!({ "row": v }) }; } v }
  }
}

const MUTATIONS: [&str; 17] = ["replace by garbage", "wrong type", "delete field", "add field", "rename field", "empty array", "duplicate element",
  "prepend @", "unknown key name", "lower-case a string", "surround with blanks", "undefined alias", "wrap in array", "unwrap array",
  "top level", "insert unknown character", "swap from/to"];

// returns the name of the mutation applied (None: not applicable at the chosen node)
fn mutate(rng: &mut Rng, v: &mut Value) -> Option<&'static str> {
  let mut paths = Vec::new();
  collect_paths(v, &mut Vec::new(), &mut paths);
  let path = rng.pick(&paths).clone();
  let which = rng.below(MUTATIONS.len());
  let name = MUTATIONS[which];
  if name == "top level" {
    match rng.below(5) {
      0 => { *v = Value::Array(vec![v.clone()]); },
      1 => { v.as_object_mut()?.insert("no_repeat_keys".to_string(), json!([])); },
      2 => { let m = v.as_object_mut()?.remove("mappings")?; v.as_object_mut()?.insert("Mappings".to_string(), m); },
      3 => { *v = v.get("mappings")?.clone(); },
      _ => { v.as_object_mut()?.insert("mappings".to_string(), json!({})); }
    }
    return Some(name);
  }
  let node = node_mut(v, &path);
  match name {
    "replace by garbage" => { *node = garbage(rng, 2); },
    "wrong type" => {
      *node = match node { Value::String(_) => json!(7), Value::Number(_) => json!("7"), Value::Array(_) => json!({}), Value::Object(_) => json!([]), _ => json!("x") };
    },
    "delete field" => { let m = node.as_object_mut()?; let ks: Vec<String> = m.keys().cloned().collect(); if ks.is_empty() { return None; } let k = rng.pick(&ks).clone(); m.remove(&k); },
    "add field" => { let m = node.as_object_mut()?; let k = rng.pick(&["repeat", "absorbing", "to", "from", "row", "letters", "extra", "Special", "keys", "delay_ms"]).to_string(); if m.contains_key(&k) { return None; } m.insert(k, garbage(rng, 1)); },
    "rename field" => {
      let m = node.as_object_mut()?; let ks: Vec<String> = m.keys().cloned().collect(); if ks.is_empty() { return None; }
      let k = rng.pick(&ks).clone(); let val = m.remove(&k)?;
      let nk = match rng.below(3) { 0 => k.to_uppercase(), 1 => format!("{} ", k), _ => { let mut c = k.chars(); match c.next() { Some(f) => f.to_uppercase().collect::<String>() + c.as_str(), None => "x".to_string() } } };
      m.insert(if nk == k { k.to_lowercase() } else { nk }, val);
    },
    "empty array" => { *node = json!([]); },
    "duplicate element" => { let a = node.as_array_mut()?; if a.is_empty() { return None; } let i = rng.below(a.len()); let x = a[i].clone(); let j = rng.below(a.len() + 1); a.insert(j, x); },
    "prepend @" => { let s = node.as_str()?.to_string(); *node = json!(format!("@{}", s)); },
    "unknown key name" => { node.as_str()?; *node = json!(*rng.pick(&["NOSUCHKEY", "a", "K10", "10", "LEFT SHIFT", "Ａ", "KEY_A", ""])); },
    "lower-case a string" => { let s = node.as_str()?.to_string(); if s.to_lowercase() == s { return None; } *node = json!(s.to_lowercase()); },
    "surround with blanks" => { let s = node.as_str()?.to_string(); *node = json!(format!(" {} ", s)); },
    "undefined alias" => { node.as_str()?; *node = json!("@nowhere"); },
    "wrap in array" => { let x = node.clone(); *node = json!([x]); },
    "unwrap array" => { let a = node.as_array()?; if a.is_empty() { return None; } let x = a[a.len() - 1].clone(); *node = x; },
    "insert unknown character" => { let s = node.as_str()?.to_string(); let mut cs: Vec<char> = s.chars().collect(); let i = rng.below(cs.len() + 1); cs.insert(i, *rng.pick(&['é', '\n', '\u{0}', '€', 'İ'])); *node = json!(cs.into_iter().collect::<String>()); },
    "swap from/to" => { let m = node.as_object_mut()?; let f = m.remove("from")?; let t = m.remove("to")?; m.insert("from".to_string(), t); m.insert("to".to_string(), f); },
    _ => return None
  }
  Some(name)
}

// ---------- respelling: an equivalent program written differently ----------

fn flip_case(s: &str, rng: &mut Rng) -> String {
  s.chars().map(|c| if rng.chance(1, 2) { c.to_ascii_uppercase() } else { c.to_ascii_lowercase() }).collect()
}

fn toggle_list(v: &mut Value) {
  let new = match &*v {
    Value::Array(a) if a.len() == 1 => a[0].clone(),
    Value::Array(_) => return,
    other => Value::Array(vec![other.clone()])
  };
  *v = new;
}

fn respell_row_name(v: &mut Value, rng: &mut Rng) {
  // v is a `from` value: the row object is it, or its last element
  let target: &mut Value = if v.is_array() { match v.as_array_mut().unwrap().last_mut() { Some(x) => x, None => return } } else { v };
  if let Some(r) = target.get_mut("row") { if let Some(s) = r.as_str() { let t = flip_case(s, rng); *r = json!(t); } }
}

fn respell_repeat(rep: &mut Value, rng: &mut Rng) {
  if let Some(s) = rep.as_str() { let t = flip_case(s, rng); *rep = json!(t); }
  else if let Some(keys) = rep.get_mut("Special").and_then(|s| s.get_mut("keys")) { if rng.chance(2, 3) { toggle_list(keys); } }
}

// toggles bare <-> one-element array for from / to / absorbing / Special keys, and the case of row and repeat names
fn respell(v: &Value, rng: &mut Rng) -> Value {
  let mut v = v.clone();
  if let Some(ms) = v.get_mut("mappings").and_then(|m| m.as_array_mut()) {
    for m in ms.iter_mut() {
      if let Some(o) = m.as_object_mut() {
        if let Some(f) = o.get_mut("from") { respell_row_name(f, rng); if rng.chance(2, 3) { toggle_list(f); } }
        if let Some(t) = o.get_mut("to") { if rng.chance(2, 3) { toggle_list(t); } }
        if let Some(a) = o.get_mut("absorbing") { if rng.chance(2, 3) { toggle_list(a); } }
        if let Some(r) = o.get_mut("repeat") { respell_repeat(r, rng); }
      }
    }
  }
  v
}

// ---------- sources of part a ----------

fn readme_blocks() -> Vec<(String, String)> {
  let mut res = Vec::new();
  let text = match std::fs::read_to_string("/repo/README.md") { Ok(t) => t, Err(_) => return res };
  let mut in_block = false;
  let mut block = String::new();
  let mut idx = 0;
  for line in text.lines() {
    if line.trim_start().starts_with("```json") { in_block = true; block.clear(); continue; }
    if in_block && line.trim_start().starts_with("```") {
      in_block = false;
      idx += 1;
      res.push((format!("readme:{}", idx), block.clone()));
      res.push((format!("readme:{}:wrapped", idx), format!("{{\"mappings\":[{}]}}", block)));
      continue;
    }
    if in_block { block.push_str(line); block.push('\n'); }
  }
  res
}

fn fixed_sources() -> Vec<(String, String)> {
  let mut res: Vec<(String, String)> = Vec::new();
  let mut names: Vec<&String> = crate::default_fancy_layouts::DEFAULT_LAYOUTS.keys().collect();
  names.sort();
  for n in names { res.push((format!("builtin:{}", n), crate::default_fancy_layouts::DEFAULT_LAYOUTS.get(n).unwrap().to_string())); }
  res.extend(readme_blocks());
  let dir = "/verif/corpus/layouts";
  let mut files: Vec<String> = match std::fs::read_dir(dir) {
    Ok(rd) => rd.filter_map(|e| e.ok()).map(|e| e.file_name().to_string_lossy().to_string()).filter(|n| n.ends_with(".json")).collect(),
    Err(_) => vec![]
  };
  files.sort();
  for n in files { if let Ok(t) = std::fs::read_to_string(format!("{}/{}", dir, n)) { res.push((format!("corpus:{}", n), t)); } }
  // the repository's own unit-test layouts and a few hand-written ones aimed at known corners
  let hand: Vec<(&str, &str)> = vec![
    ("hand:repeat_only_1", r#"{"mappings":[{"from":"LEFTSHIFT","to":"@shift"},{"from":["@shift",{"row":"A"}],"to":{"letters":"S"}},{"from":["@shift","A"],"repeat":{"Special":{"keys":"F24","delay_ms":180,"interval_ms":30}}}]}"#),
    ("hand:repeat_only_identity", r#"{"mappings":[{"from":["LEFTCTRL","A"],"repeat":"Disabled"},{"from":["LEFTCTRL","A"],"repeat":"Normal"}]}"#),
    ("hand:repeat_only_set", r#"{"mappings":[{"from":["LEFTCTRL","LEFTALT","A"],"to":"B"},{"from":["LEFTALT","LEFTCTRL","A"],"repeat":"Disabled"},{"from":["LEFTALT","A","LEFTCTRL"],"repeat":"Disabled"}]}"#),
    ("hand:alias_twice", r#"{"mappings":[{"from":"LEFTSHIFT","to":"@s"},{"from":"RIGHTSHIFT","to":"@s"},{"from":["@s","@s","A"],"to":["@s","B"]}]}"#),
    ("hand:alias_multi_key", r#"{"mappings":[{"from":["LEFTCTRL","X"],"to":["F1","@x"]},{"from":["@x","B"],"to":["@x","C"],"absorbing":"@x"}]}"#),
    ("hand:right_shift_row", r#"{"mappings":[{"from":["RIGHTSHIFT",{"row":"q"}],"to":{"letters":"Ab{ ~"},"repeat":{"Special":{"keys":{"letters":"aB"},"delay_ms":4294967301,"interval_ms":-1}}}]}"#),
    ("hand:row_too_long", r#"{"mappings":[{"from":{"row":"Z"},"to":{"letters":"          x"}}]}"#),
    ("hand:row_spaces_too_long", r#"{"mappings":[{"from":{"row":"Z"},"to":{"letters":"           "}}]}"#),
    ("hand:dup_from", r#"{"mappings":[{"from":["A","A"],"to":"B"}]}"#),
    ("hand:dup_to", r#"{"mappings":[{"from":"A","to":["B","B"]}]}"#),
    ("hand:extra_field_ignored", r#"{"mappings":[{"from":"A","to":"B","comment":"x"}]}"#),
    ("hand:repeat_only_extra_field", r#"{"mappings":[{"from":"A","repeat":"Disabled","comment":"x"}]}"#),
    ("hand:float_delay", r#"{"mappings":[{"from":"A","to":"B","repeat":{"Special":{"keys":[],"delay_ms":1.0,"interval_ms":1}}}]}"#),
    ("hand:u64_delay", r#"{"mappings":[{"from":"A","to":"B","repeat":{"Special":{"keys":[],"delay_ms":9223372036854775807,"interval_ms":9223372036854775808}}}]}"#),
    ("hand:empty", r#"{"mappings":[]}"#),
    ("hand:alias_only_modifier", r#"{"mappings":[{"from":"LEFTSHIFT","to":"@s"},{"from":"A","to":"@s"},{"from":["LEFTSHIFT","A"],"to":["X","@t"]}]}"#),
    ("hand:absorbing_alias_on_row", r#"{"mappings":[{"from":"LEFTSHIFT","to":"@s"},{"from":"RIGHTSHIFT","to":"@s"},{"from":["@s",{"row":"A"}],"to":["@s",{"letters":"aoeu"}],"absorbing":["@s"],"repeat":"DISABLED"}]}"#),
    ("hand:kelvin", "{\"mappings\":[{\"from\":\"A\",\"to\":\"B\",\"repeat\":\"DISABLED\"},{\"from\":{\"row\":\"\u{ff31}\"},\"to\":{\"letters\":\"\"}}]}"),
  ];
  for (n, t) in hand { res.push((n.to_string(), t.to_string())); }
  res
}

// ---------- the mapper on an accepted layout (C14, second sentence) ----------

fn drive_mapper(l: &Layout, rng: &mut Rng, n_events: usize) -> Result<(), String> {
  catch_unwind(AssertUnwindSafe(|| {
    let mut mapper = Mapper::for_layout(l);
    let mut keys = crate::h_layouts::layout_keys(l);
    keys.push(KeyCode::F13);
    keys.push(KeyCode::RIGHTMETA);
    let mut held: Vec<KeyCode> = Vec::new();
    for _ in 0..n_events {
      let k = *rng.pick(&keys);
      let e = if held.contains(&k) && rng.chance(3, 5) { held.retain(|x| *x != k); Event::Released(k) }
        else if rng.chance(1, 12) { Event::Released(k) }
        else { if !held.contains(&k) { held.push(k); } Event::Pressed(k) };
      let _ = mapper.step(e);
    }
    let _ = mapper.release_all();
  })).map_err(panic_text)
}

// ---------- child process for inputs that could exhaust the stack ----------

fn child(path: &str) -> i32 {
  match catch_unwind(AssertUnwindSafe(|| crate::layout_loading::load_layout_from_file(path))) {
    Ok(Ok(l)) => { println!("CHILD ok {}", l.mappings.len()); 0 },
    Ok(Err(e)) => { let e: String = e.chars().take(160).collect(); println!("CHILD err {}", e.replace('\n', " ")); 0 },
    Err(p) => { println!("CHILD panic {}", panic_text(p)); 3 }
  }
}

fn run_child(path: &str) -> (Option<i32>, String) {
  let exe = std::env::current_exe().expect("current_exe");
  match std::process::Command::new(exe).args(&["load", "--child-file", path]).output() {
    Ok(o) => (o.status.code(), String::from_utf8_lossy(&o.stdout).trim().to_string()),
    Err(e) => (None, format!("spawn failed: {}", e))
  }
}

fn file_load(path: &str, bytes: &[u8]) -> Real {
  std::fs::write(path, bytes).expect("write temp file");
  match catch_unwind(AssertUnwindSafe(|| crate::layout_loading::load_layout_from_file(path))) {
    Ok(Ok(l)) => Real::Ok(l),
    Ok(Err(e)) => Real::Err(e),
    Err(p) => Real::Panic(panic_text(p))
  }
}

// ---------- the suite ----------

const RULE: &str = "a: built-ins, README json blocks (raw and wrapped as a one-mapping layout), corpus files and hand-written corner cases. b: a type-directed generator of layout programs (alias definitions with 1-3 keys, 1-3 definitions per alias, optional extra output keys; single / row / repeat-only mappings with 0-3 alias or plain modifiers; all row names in both cases; letters over the 94 printable characters, space and a few unknown characters; every repeat form with numbers from small ints to 2^64 and floats; absorbing as string / array / alias / not-in-from; bare vs one-element-array spellings), then the same generator followed by 1-3 structure-aware mutations. Every program: real parse+convert under catch_unwind vs model LOAD and PARSE (and, if available, C13/C13X = the declarative expansion). c: no panic anywhere; accepted layouts pass the harness's own well-formedness check, Mapper::for_layout and a 40-event random history; raw bytes through load_layout_from_file (all truncations of two built-ins, damage, numbers, UTF-8, BOM, duplicate keys; deep nesting in a child process). d: to_value vs model SER, model C15 verdict, real pretty-print round trip in memory and through a file, all key names. e: Ord = discriminant order; exhaustive Unicode case mapping claims. distinct_nontrivial counts DISTINCT accepted programs that contain at least one row or alias shorthand and convert to >= 2 basic mappings.";

fn bump(m: &mut BTreeMap<String, u64>, k: &str) { *m.entry(k.to_string()).or_insert(0) += 1; }

fn has_shorthand(f: &fk::Layout) -> bool {
  let is_alias = |m: &fk::Modifier| matches!(m, fk::Modifier::Alias(_));
  f.mappings.iter().any(|m| match m {
    fk::Mapping::Row(_) | fk::Mapping::Alias(_) => true,
    fk::Mapping::Single(s) => s.from.modifiers.iter().any(is_alias),
    fk::Mapping::RepeatOnlySingle(s) => s.from.modifiers.iter().any(is_alias)
  })
}

fn real_key(name: &str) -> Option<i32> {
  let v = json!({ "mappings": [{ "from": name, "to": [] }] });
  match real_parse(&v) {
    Ok(Ok(l)) => match l.mappings.get(0) { Some(fk::Mapping::Single(s)) => Some(s.from.key as i32), _ => None },
    _ => None
  }
}

struct Suite {
  lean: Lean,
  has_c13: bool,
  cases: Vec<Case>,
  findings: Vec<Finding>,
  divergences: u64,
  property_violations: u64,
  selfcheck_failures: u64,
  unclassified: u64,
  // statistics
  accepted: BTreeMap<String, u64>,
  rejected: BTreeMap<String, u64>,
  error_sites: BTreeMap<String, u64>,
  kinds_accepted: BTreeMap<String, u64>,
  basic_sizes: BTreeMap<String, u64>,
  distinct_nontrivial: HashSet<String>,
  distinct_accepted: HashSet<String>,
  impl_panics: u64,
  c15_checked: u64,
  file_round_trips: u64,
  mapper_runs: u64,
  repeat_only_programs: u64,
  repeat_only_with_identity: u64,
  samples: Vec<String>,
  tmp_file: String,
  file_round_trip_cap: u64
}

fn stream_of(source: &str) -> &str { source.split(':').next().unwrap_or("") }

impl Suite {
  fn add_finding(&mut self, f: Finding) {
    match f.kind { "divergence" => self.divergences += 1, "property" => self.property_violations += 1, _ => self.selfcheck_failures += 1 }
    // keep property findings and divergences apart: a flood of one kind must not hide the other
    let same_class = self.findings.iter().filter(|g| g.kind == f.kind && g.properties == f.properties).count();
    if same_class < 40 { self.findings.push(f); }
  }

  // queue the model comparisons for one value; run the implementation-side checks
  fn case(&mut self, source: String, value: Value, rng: &mut Rng) -> Real {
    let idx = self.cases.len() as u64;
    let tok = token(&value);
    let real = real_load(&value);
    let parsed = real_parse(&value);
    self.lean.expect(KIND_LOAD, idx, format!("LOAD {}", tok), show_real(&real));
    self.lean.expect(KIND_PARSE, idx, format!("PARSE {}", tok), match &parsed { Ok(Ok(_)) => "ok", Ok(Err(_)) => "error", Err(_) => "panic" }.to_string());
    if self.has_c13 {
      self.lean.expect(KIND_C13, idx, format!("C13 {}", tok), "ok".to_string());
      self.lean.expect(KIND_C13X, idx, format!("C13X {}", tok), show_real(&real));
    }
    let stream = stream_of(&source).to_string();
    let text = value.to_string();
    match &real {
      Real::Panic(p) => {
        self.impl_panics += 1;
        self.add_finding(Finding { kind: "property", properties: "C14", what: format!("the loader panics ({})", source), input: text.clone(), implementation: format!("PANIC: {}", p), model: String::new() });
      },
      Real::Err(e) => { bump(&mut self.rejected, &stream); bump(&mut self.error_sites, error_site(e)); },
      Real::Ok(l) => {
        bump(&mut self.accepted, &stream);
        let fresh = self.distinct_accepted.insert(text.clone());
        if let Ok(Ok(f)) = &parsed {
          let mut ro = false;
          for m in &f.mappings {
            bump(&mut self.kinds_accepted, match m { fk::Mapping::Single(_) => "single", fk::Mapping::Alias(_) => "alias", fk::Mapping::Row(_) => "row", fk::Mapping::RepeatOnlySingle(_) => { ro = true; "repeat-only" } });
          }
          if ro && fresh {
            self.repeat_only_programs += 1;
            if l.mappings.iter().any(|m| m.from == m.to && m.absorbing.is_empty()) { self.repeat_only_with_identity += 1; }
          }
          if has_shorthand(f) && l.mappings.len() >= 2 { self.distinct_nontrivial.insert(text.clone()); }
        }
        bump(&mut self.basic_sizes, match l.mappings.len() { 0 => "0", 1 => "1", 2..=5 => "2-5", 6..=20 => "6-20", 21..=100 => "21-100", _ => ">100" });
        if self.samples.len() < 8 && has_c13_like_sample(&source, l) { self.samples.push(format!("{}: {} -> {}", source, truncate(&text, 300), truncate(&fmt::layout(l), 300))); }
        // C14: accepted layouts are well-formed, install, and run
        if !is_wf(l) {
          self.add_finding(Finding { kind: "property", properties: "C14", what: "accepted layout is not well-formed (Mapper::for_layout would panic)".to_string(), input: text.clone(), implementation: fmt::layout(l), model: String::new() });
        }
        else if fresh {
          self.mapper_runs += 1;
          if let Err(p) = drive_mapper(l, rng, 40) {
            self.add_finding(Finding { kind: "property", properties: "C14", what: "the mapper panics on an accepted layout".to_string(), input: text.clone(), implementation: format!("PANIC: {}", p), model: String::new() });
          }
        }
        // C15: what is saved, and the round trip
        if fresh {
          self.c15_checked += 1;
          let lt = fmt::layout(l);
          let tv = serde_json::to_value(l).expect("to_value");
          self.lean.expect(KIND_SER, idx, format!("SER {}", lt), token(&tv));
          self.lean.expect(KIND_C15, idx, format!("C15 {}", lt), "ok".to_string());
          let pretty = serde_json::to_string_pretty(l).expect("to_string_pretty");
          match serde_json::from_str::<Value>(&pretty) {
            Ok(back) => {
              if back != tv {
                self.add_finding(Finding { kind: "property", properties: "C15", what: "serde_json text round trip changes the saved value".to_string(), input: text.clone(), implementation: pretty.clone(), model: String::new() });
              }
              match real_load(&back) {
                Real::Ok(l2) if l2.mappings == l.mappings => (),
                other => self.add_finding(Finding { kind: "property", properties: "C15", what: "the saved layout does not reload as the same layout".to_string(), input: text.clone(), implementation: format!("saved {} ; reloaded: {}", pretty, describe_real(&other)), model: format!("layout {}", lt) })
              }
            },
            Err(e) => self.add_finding(Finding { kind: "property", properties: "C15", what: "the saved text is not JSON".to_string(), input: text.clone(), implementation: format!("{}: {}", e, pretty), model: String::new() })
          }
          if self.file_round_trips < self.file_round_trip_cap {
            self.file_round_trips += 1;
            // exactly the service's path: to_writer_pretty to a file, load_layout_from_file
            let ok = (|| -> Result<bool, String> {
              let f = std::fs::File::create(&self.tmp_file).map_err(|e| e.to_string())?;
              serde_json::to_writer_pretty(std::io::BufWriter::new(f), l).map_err(|e| e.to_string())?;
              let l2 = crate::layout_loading::load_layout_from_file(&self.tmp_file)?;
              Ok(l2.mappings == l.mappings)
            })();
            if ok != Ok(true) {
              self.add_finding(Finding { kind: "property", properties: "C15", what: "to_writer_pretty + load_layout_from_file does not give the layout back".to_string(), input: text.clone(), implementation: format!("{:?}", ok), model: format!("layout {}", lt) });
            }
          }
        }
      }
    }
    self.cases.push(Case { source, value, real: real.clone() });
    real
  }

  fn sync(&mut self) {
    let (n, ms) = self.lean.sync();
    self.unclassified += n - ms.len() as u64;
    for m in ms {
      let c = &self.cases[m.tag as usize];
      let input = c.value.to_string();
      let f = match m.kind {
        KIND_LOAD => Finding { kind: "divergence", properties: "-", what: format!("LOAD ({})", c.source), input, implementation: describe_real(&c.real), model: m.got.clone() },
        KIND_PARSE => Finding { kind: "divergence", properties: "-", what: format!("PARSE ({})", c.source), input, implementation: m.expected.clone(), model: m.got.clone() },
        KIND_SER => Finding { kind: "divergence", properties: "-", what: format!("SER: serde_json::to_value of the accepted layout vs model serialize ({})", c.source), input, implementation: m.expected.clone(), model: m.got.clone() },
        KIND_C15 => Finding { kind: "property", properties: "C15", what: format!("model: load (serialize L) = ok L fails for the accepted layout ({})", c.source), input, implementation: m.req.clone(), model: m.got.clone() },
        KIND_C13 => Finding { kind: "property", properties: "C13", what: format!("model loader disagrees with the declarative expansion ({})", c.source), input, implementation: describe_real(&c.real), model: m.got.clone() },
        _ => Finding { kind: "property", properties: "C13", what: format!("implementation disagrees with the declarative expansion ({})", c.source), input, implementation: describe_real(&c.real), model: m.got.clone() }
      };
      self.add_finding(f);
    }
  }
}

fn truncate(s: &str, n: usize) -> String { if s.chars().count() <= n { s.to_string() } else { s.chars().take(n).collect::<String>() + "…" } }

fn has_c13_like_sample(source: &str, l: &Layout) -> bool {
  (source.starts_with("gen:") && l.mappings.len() >= 3 && l.mappings.len() <= 12) || source == "builtin:caps-q-for-esc"
}

pub fn run(opts: &Opts) -> i32 {
  if let Some(p) = opts.get("child-file") { return child(p); }
  let seed = opts.num("seed", 1);
  let thorough = opts.thorough();
  let out_dir = opts.get_or("out", "/verif/harness/tmp/load").to_string();
  let _ = std::fs::create_dir_all(&out_dir);
  let tmp_dir = "/verif/harness/tmp/load";
  let _ = std::fs::create_dir_all(tmp_dir);
  let prev_hook = std::panic::take_hook();
  std::panic::set_hook(Box::new(|_| {}));   // panics are caught and reported as findings
  let mut rng = Rng::new(seed);
  let mut lean = Lean::start();
  let has_c13 = lean.ask("C13 n") == "ok";
  let mut s = Suite {
    lean, has_c13, cases: Vec::new(), findings: Vec::new(), divergences: 0, property_violations: 0, selfcheck_failures: 0, unclassified: 0,
    accepted: BTreeMap::new(), rejected: BTreeMap::new(), error_sites: BTreeMap::new(), kinds_accepted: BTreeMap::new(), basic_sizes: BTreeMap::new(),
    distinct_nontrivial: HashSet::new(), distinct_accepted: HashSet::new(), impl_panics: 0, c15_checked: 0, file_round_trips: 0, mapper_runs: 0,
    repeat_only_programs: 0, repeat_only_with_identity: 0, samples: Vec::new(),
    tmp_file: format!("{}/roundtrip_{}_{}.json", tmp_dir, seed, std::process::id()), file_round_trip_cap: if thorough { 20000 } else { 2000 }
  };

  // ---- a. fixed sources ----
  let mut not_json = 0u64;
  let mut fixed = 0u64;
  let mut r0 = rng.fork(10);
  for (name, text) in fixed_sources() {
    match serde_json::from_str::<Value>(&text) {
      Ok(v) => { fixed += 1; s.case(name, v, &mut r0); },
      Err(_) => not_json += 1
    }
  }
  s.sync();

  // ---- b. generated programs ----
  let n_valid = if thorough { 80000 } else { 4000 };
  let n_mal = if thorough { 80000 } else { 4000 };
  let mut dist = Dist::default();
  let mut r1 = rng.fork(11);
  let mut respelled = 0u64;
  let mut respell_changed_text = 0u64;
  for i in 0..n_valid {
    let v = { let mut g = Gen { rng: &mut r1, dist: &mut dist }; g.program() };
    let real = s.case(format!("gen:{}", i), v.clone(), &mut r0);
    if i % 3 == 0 {
      // f. the same program spelled differently must convert identically
      let v2 = respell(&v, &mut r1);
      respelled += 1;
      if v2 != v {
        respell_changed_text += 1;
        let real2 = s.case(format!("respell:{}", i), v2.clone(), &mut r0);
        if show_real(&real) != show_real(&real2) {
          s.add_finding(Finding { kind: "property", properties: "C13", what: "an equivalent spelling converts differently".to_string(), input: v.to_string(), implementation: format!("{} ;; respelled {} gives {}", describe_real(&real), v2, describe_real(&real2)), model: String::new() });
        }
      }
    }
    if i % 1000 == 999 { s.sync(); }
  }
  s.sync();
  let mut mut_dist = Dist::default();
  let mut mutation_hist: BTreeMap<String, u64> = BTreeMap::new();
  let mut r2 = rng.fork(12);
  for i in 0..n_mal {
    let mut v = { let mut g = Gen { rng: &mut r2, dist: &mut mut_dist }; g.program() };
    let want = 1 + weighted(&mut r2, &[70, 22, 8]);
    let mut applied = 0;
    let mut guard = 0;
    while applied < want && guard < 40 {
      guard += 1;
      if let Some(name) = mutate(&mut r2, &mut v) { applied += 1; bump(&mut mutation_hist, name); }
    }
    s.case(format!("mut:{}", i), v, &mut r0);
    if i % 1000 == 999 { s.sync(); }
  }
  s.sync();

  // ---- c. raw bytes through the real load_layout_from_file ----
  let byte_file = format!("{}/bytes_{}_{}.json", tmp_dir, seed, std::process::id());
  let mut byte_cases = 0u64;
  let mut byte_ok = 0u64;
  let mut byte_results: BTreeMap<String, u64> = BTreeMap::new();
  let mut byte_inputs: Vec<(String, Vec<u8>)> = Vec::new();
  {
    let builtin = |n: &str| crate::default_fancy_layouts::DEFAULT_LAYOUTS.get(n).unwrap().as_bytes().to_vec();
    let easy = builtin("easy-symbols");
    let caps = builtin("caps-q-for-esc");
    for n in 0..=easy.len() { byte_inputs.push((format!("truncation of easy-symbols at {}", n), easy[..n].to_vec())); }
    for n in 0..=caps.len() { byte_inputs.push((format!("truncation of caps-q-for-esc at {}", n), caps[..n].to_vec())); }
    if thorough { let sd = builtin("super-dvorak"); for n in 0..=sd.len() { byte_inputs.push((format!("truncation of super-dvorak at {}", n), sd[..n].to_vec())); } }
    byte_inputs.push(("empty file".to_string(), vec![]));
    byte_inputs.push(("BOM".to_string(), [&[0xEFu8, 0xBB, 0xBF][..], &caps[..]].concat()));
    byte_inputs.push(("trailing garbage".to_string(), [&caps[..], b" x"].concat()));
    byte_inputs.push(("two values".to_string(), [&caps[..], &caps[..]].concat()));
    byte_inputs.push(("invalid UTF-8 in a string".to_string(), b"{\"mappings\":[{\"from\":\"A\xff\",\"to\":\"B\"}]}".to_vec()));
    byte_inputs.push(("invalid UTF-8 outside strings".to_string(), b"{\"mappings\":\xc3\x28[]}".to_vec()));
    byte_inputs.push(("lone surrogate escape".to_string(), b"{\"mappings\":[{\"from\":\"\\ud800\",\"to\":\"B\"}]}".to_vec()));
    byte_inputs.push(("escaped key name".to_string(), b"{\"mappings\":[{\"from\":\"\\u0041\",\"to\":\"B\"}]}".to_vec()));
    byte_inputs.push(("NUL bytes".to_string(), vec![0u8; 64]));
    byte_inputs.push(("duplicate object keys (last wins)".to_string(), b"{\"mappings\":[{\"from\":\"A\",\"to\":\"B\"}],\"mappings\":[{\"from\":\"C\",\"to\":\"D\",\"to\":\"E\",\"from\":[\"LEFTCTRL\",\"F\"]}]}".to_vec()));
    byte_inputs.push(("duplicate repeat keys".to_string(), b"{\"mappings\":[{\"from\":\"A\",\"repeat\":\"Disabled\",\"repeat\":\"Normal\"}]}".to_vec()));
    for t in &["1e400", "-1e400", "1e-400", "123456789012345678901234567890", "-123456789012345678901234567890", "18446744073709551616", "-9223372036854775809", "0.0000000000000000000000000000000000000000001", "1E+2", "-0", "00", "1.", ".5", "0x10", "NaN", "Infinity"] {
      byte_inputs.push((format!("number literal {}", t), format!("{{\"mappings\":[{{\"from\":\"A\",\"to\":\"B\",\"repeat\":{{\"Special\":{{\"keys\":[],\"delay_ms\":{},\"interval_ms\":1}}}}}}]}}", t).into_bytes()));
    }
    let long_letters: String = std::iter::repeat('a').take(100000).collect();
    byte_inputs.push(("100000 letters".to_string(), format!("{{\"mappings\":[{{\"from\":{{\"row\":\"A\"}},\"to\":{{\"letters\":\"{}\"}}}}]}}", long_letters).into_bytes()));
    let many: Vec<String> = (0..20000).map(|_| "{\"from\":\"A\",\"to\":\"B\"}".to_string()).collect();
    byte_inputs.push(("20000 mappings".to_string(), format!("{{\"mappings\":[{}]}}", many.join(",")).into_bytes()));
    // random byte damage
    let mut r3 = rng.fork(13);
    for i in 0..(if thorough { 20000 } else { 1500 }) {
      let mut b = if r3.chance(1, 2) { easy.clone() } else { caps.clone() };
      for _ in 0..(1 + r3.below(3)) {
        let p = r3.below(b.len());
        match r3.below(4) { 0 => { b[p] = r3.below(256) as u8; }, 1 => { b.remove(p); }, 2 => { b.insert(p, *r3.pick(&[b'"', b'[', b']', b'{', b'}', b',', b':', b'\\', b'@', 0xC3, 0xFF, b'0'])); }, _ => { b[p] ^= 1 << r3.below(8); } }
      }
      byte_inputs.push((format!("random damage {}", i), b));
    }
  }
  let mut byte_tie = 0u64;
  for (what, bytes) in &byte_inputs {
    byte_cases += 1;
    let r = file_load(&byte_file, bytes);
    bump(&mut byte_results, match &r { Real::Ok(_) => "ok", Real::Err(e) if e.starts_with("Error parsing") => "err: not JSON", Real::Err(_) => "err: rejected layout", Real::Panic(_) => "panic" });
    match &r {
      Real::Ok(_) => byte_ok += 1,
      Real::Panic(p) => s.add_finding(Finding { kind: "property", properties: "C14", what: format!("load_layout_from_file panics: {}", what), input: String::from_utf8_lossy(bytes).to_string(), implementation: format!("PANIC: {}", p), model: String::new() }),
      _ => ()
    }
    // where the bytes are JSON, the model must agree with what the file loader did with the Value
    if let Ok(v) = serde_json::from_slice::<Value>(bytes) {
      if bytes.len() < 20000 {
        byte_tie += 1;
        let idx = s.cases.len() as u64;
        s.lean.expect(KIND_LOAD, idx, format!("LOAD {}", token(&v)), show_real(&r));
        s.cases.push(Case { source: format!("bytes:{}", what), value: v, real: r.clone() });
      }
    }
    else if let Real::Ok(_) = &r {
      s.add_finding(Finding { kind: "selfcheck", properties: "C14", what: format!("file loader accepts bytes that from_slice rejects: {}", what), input: String::from_utf8_lossy(bytes).to_string(), implementation: describe_real(&r), model: String::new() });
    }
  }
  s.sync();
  // deep nesting and friends in a child process: a stack overflow would kill it, not us
  let mut child_results: Vec<String> = Vec::new();
  {
    let deep = |open: &str, close: &str, n: usize| -> Vec<u8> { let mut t = String::new(); for _ in 0..n { t.push_str(open); } for _ in 0..n { t.push_str(close); } t.into_bytes() };
    let mut risky: Vec<(String, Vec<u8>)> = vec![
      ("[[[[… 10000 deep".to_string(), deep("[", "]", 10000)),
      ("[[[[… 10000 deep, unclosed".to_string(), deep("[", "", 10000)),
      ("{\"a\":{\"a\":… 10000 deep".to_string(), { let mut t = String::new(); for _ in 0..10000 { t.push_str("{\"a\":"); } t.push('1'); for _ in 0..10000 { t.push('}'); } t.into_bytes() }),
      ("[[[[… 1000000 deep".to_string(), deep("[", "]", 1000000)),
      ("nesting 127 inside mappings".to_string(), format!("{{\"mappings\":[{{\"from\":{}\"A\"{},\"to\":\"B\"}}]}}", "[".repeat(120), "]".repeat(120)).into_bytes()),
      ("nesting 200 inside mappings".to_string(), format!("{{\"mappings\":[{{\"from\":{}\"A\"{},\"to\":\"B\"}}]}}", "[".repeat(200), "]".repeat(200)).into_bytes()),
    ];
    let big: String = std::iter::repeat("9").take(5_000_000).collect();
    risky.push(("5 MB number literal".to_string(), format!("{{\"mappings\":{}}}", big).into_bytes()));
    for (what, bytes) in risky {
      byte_cases += 1;
      std::fs::write(&byte_file, &bytes).expect("write temp file");
      let (code, out) = run_child(&byte_file);
      child_results.push(format!("{}: exit {:?} {}", what, code, truncate(&out, 120)));
      if code != Some(0) {
        s.add_finding(Finding { kind: "property", properties: "C14", what: format!("load_layout_from_file crashes (child exit {:?}): {}", code, what), input: what.clone(), implementation: out, model: String::new() });
      }
    }
  }
  let _ = std::fs::remove_file(&byte_file);
  let _ = std::fs::remove_file(&s.tmp_file);

  // ---- d. key names ----
  let all_keys = crate::h_tables::all_key_codes();
  let mut key_round_trips = 0u64;
  for k in &all_keys {
    key_round_trips += 1;
    let name = match serde_json::to_value(k) { Ok(Value::String(t)) => t, other => format!("<not a string: {:?}>", other) };
    let v = json!({ "mappings": [{ "from": name, "to": [] }] });
    let ok = match real_load(&v) { Real::Ok(l) => l.mappings.len() == 1 && l.mappings[0].from == vec![*k] && l.mappings[0].to.is_empty(), _ => false };
    if !ok {
      s.add_finding(Finding { kind: "property", properties: "C15", what: format!("key {:?} is written as {:?} but not read back as the same key", k, name), input: v.to_string(), implementation: describe_real(&real_load(&v)), model: String::new() });
    }
  }
  let mut names: Vec<String> = Vec::new();
  for k in &all_keys {
    let variant = format!("{:?}", k);
    let serde = match serde_json::to_value(k) { Ok(Value::String(t)) => t, _ => String::new() };
    names.push(variant.to_lowercase()); names.push(format!(" {}", variant)); names.push(format!("{} ", variant)); names.push(format!("@{}", variant));
    names.push(format!("KEY_{}", variant));
    names.push(variant); names.push(serde);
  }
  for t in &["@x", "", "@", "0", "1", "2", "3", "4", "5", "6", "7", "8", "9", "10", "00", "K1", "k1", "K10", "K", "Ａ", "A\u{0}", "\u{212a}", "ESC\n", "１"] { names.push(t.to_string()); }
  let mut key_names_checked = 0u64;
  let key_base = s.cases.len() as u64;
  for (i, n) in names.iter().enumerate() {
    key_names_checked += 1;
    let expected = match real_key(n) { Some(d) => d.to_string(), None => "none".to_string() };
    let enc = if n.is_empty() { "-".to_string() } else { enc_str(n) };
    s.lean.expect(KIND_KEY, key_base + i as u64, format!("KEY {}", enc), expected);
  }
  {
    let (n, ms) = s.lean.sync();
    s.unclassified += n - ms.len() as u64;
    for m in ms {
      let name = names[(m.tag - key_base) as usize].clone();
      s.add_finding(Finding { kind: "divergence", properties: "-", what: "KEY: parse_key_code".to_string(), input: name, implementation: m.expected, model: m.got });
    }
  }

  // ---- e. claims the model relies on ----
  // Ord on KeyCode = order of discriminants (FromSet::new sorts with it)
  let mut ord_ok = all_keys.windows(2).all(|w| w[0] < w[1] && (w[0] as i32) < (w[1] as i32));
  { let mut v = all_keys.clone(); v.reverse(); v.sort(); if v != all_keys { ord_ok = false; } }
  if !ord_ok {
    s.add_finding(Finding { kind: "divergence", properties: "-", what: "derived Ord on KeyCode is not the order of the discriminants (the model sorts by discriminant)".to_string(), input: String::new(), implementation: String::new(), model: String::new() });
  }
  // Unicode case mappings: only ASCII characters can produce the strings the parser compares with
  let upper_targets: Vec<char> = "`1QAZ".chars().collect();
  let lower_targets: Vec<char> = "normaldisabled".chars().collect();
  let mut unicode_checked = 0u64;
  let mut case_counterexamples: Vec<String> = Vec::new();
  for cp in 0u32..=0x10FFFF {
    let c = match char::from_u32(cp) { Some(c) => c, None => continue };
    unicode_checked += 1;
    let up_c: String = c.to_uppercase().collect();
    let up_s: String = c.to_string().to_uppercase();
    let lo_c: String = c.to_lowercase().collect();
    let lo_s: String = c.to_string().to_lowercase();
    if c.is_ascii() {
      let ok = up_c == c.to_ascii_uppercase().to_string() && up_s == up_c && lo_c == c.to_ascii_lowercase().to_string() && lo_s == lo_c;
      if !ok { case_counterexamples.push(format!("U+{:04X}: ASCII character whose Unicode case mapping is not the ASCII one", cp)); }
    }
    else {
      // a text containing c can only upper-case to a row name / lower-case to "normal"/"disabled" if ALL characters
      // c maps to are characters of those strings
      for (what, t) in &[("to_uppercase (char)", &up_c), ("to_uppercase (str)", &up_s)] {
        if t.chars().all(|x| upper_targets.contains(&x)) { case_counterexamples.push(format!("U+{:04X}: {} = {:?}", cp, what, t)); }
      }
      for (what, t) in &[("to_lowercase (char)", &lo_c), ("to_lowercase (str)", &lo_s)] {
        if t.chars().all(|x| lower_targets.contains(&x)) { case_counterexamples.push(format!("U+{:04X}: {} = {:?}", cp, what, t)); }
      }
    }
  }
  // final-sigma is the one context-sensitive rule of str::to_lowercase; both forms are non-ASCII
  for t in &["Σ", "AΣ", "ΑΣ ", "normalΣ"] { if t.to_lowercase().is_ascii() { case_counterexamples.push(format!("{:?}.to_lowercase() is ASCII", t)); } }
  for ce in &case_counterexamples {
    s.add_finding(Finding { kind: "divergence", properties: "-", what: "a non-ASCII character has a case mapping the model (ASCII case mapping) does not know".to_string(), input: ce.clone(), implementation: ce.clone(), model: "ASCII case mapping only".to_string() });
  }

  let requests = s.lean.sent;
  let Suite { lean, findings, divergences, property_violations, selfcheck_failures, unclassified, accepted, rejected, error_sites, kinds_accepted, basic_sizes,
    distinct_nontrivial, distinct_accepted, impl_panics, c15_checked, file_round_trips, mapper_runs, repeat_only_programs, repeat_only_with_identity, samples, cases, .. } = s;
  lean.finish();
  std::panic::set_hook(prev_hook);

  // property findings (concrete failing inputs) first, at most MAX_REPLAYS of each kind
  let mut ordered: Vec<&Finding> = Vec::new();
  // ... and of each property: a flood of C14 panics must not hide the C13 / C15 findings of the same change
  for prop in ["C13", "C14", "C15"] { ordered.extend(findings.iter().filter(|f| f.kind == "property" && f.properties == prop).take(8)); }
  ordered.extend(findings.iter().filter(|f| f.kind == "property" && !["C13", "C14", "C15"].contains(&f.properties)).take(8));
  ordered.extend(findings.iter().filter(|f| f.kind == "divergence").take(MAX_REPLAYS));
  ordered.extend(findings.iter().filter(|f| f.kind != "property" && f.kind != "divergence").take(MAX_REPLAYS));
  for (i, f) in ordered.iter().enumerate() {
    let path = format!("{}/finding_{}_{}.json", out_dir, seed, i);
    std::fs::write(&path, serde_json::to_string_pretty(&finding_json(f)).unwrap()).unwrap();
    println!("FINDING kind={} properties={} replay={}", f.kind, f.properties, path);
  }

  let sites_never_hit: Vec<&str> = ERROR_SITES.iter().filter(|x| !error_sites.contains_key(**x) && **x != "json:").cloned().collect();
  let mut st = Map::new();
  macro_rules! put { ($k:expr, $v:expr) => { st.insert($k.to_string(), json!($v)); } }
  put!("suite", "load"); put!("seed", seed); put!("tier", if thorough { "thorough" } else { "quick" });
  put!("cases", cases.len() as u64 + byte_cases + key_round_trips + key_names_checked + unicode_checked);
  put!("loader_cases_compared_with_model", cases.len());
  put!("fixed_sources", fixed); put!("fixed_sources_not_json", not_json);
  put!("generated_programs", n_valid); put!("respelled_programs", respelled); put!("respelled_programs_that_differ_textually", respell_changed_text);
  put!("mutated_programs", n_mal);
  put!("accepted_by_stream", accepted); put!("rejected_by_stream", rejected);
  put!("distinct_accepted_programs", distinct_accepted.len());
  put!("distinct_nontrivial", distinct_nontrivial.len());
  put!("mapping_kinds_generated", dist.kinds_generated);
  put!("mapping_kinds_in_accepted_programs", kinds_accepted);
  put!("generator_features", dist.features);
  put!("mutations_applied", mutation_hist);
  put!("basic_mappings_per_accepted_program", basic_sizes);
  put!("repeat_only_programs_accepted", repeat_only_programs); put!("of_which_contain_an_identity_mapping", repeat_only_with_identity);
  put!("error_sites_hit", error_sites); put!("error_sites_never_hit", sites_never_hit);
  put!("c13_commands_available", has_c13);
  put!("c15_layouts_checked", c15_checked); put!("c15_file_round_trips", file_round_trips);
  put!("key_round_trips", key_round_trips); put!("key_names_compared", key_names_checked);
  put!("mapper_runs_on_accepted_layouts", mapper_runs);
  put!("byte_stream_cases", byte_cases); put!("byte_stream_accepted", byte_ok); put!("byte_stream_results", byte_results); put!("byte_stream_cases_also_compared_with_model", byte_tie);
  put!("child_process_cases", child_results);
  put!("unicode_scalar_values_checked", unicode_checked); put!("case_mapping_counterexamples", case_counterexamples);
  put!("ord_is_discriminant_order", ord_ok);
  put!("implementation_panics", impl_panics);
  put!("rule", RULE);
  put!("divergences", divergences);
  put!("monitor_violations", property_violations);
  put!("selfcheck_failures", selfcheck_failures);
  put!("further_disagreements_not_classified", unclassified);
  put!("lean_requests", requests);
  put!("samples", samples);
  put!("findings", findings.len());
  let stats_json = Value::Object(st);
  if let Some(p) = opts.get("stats") { std::fs::write(p, serde_json::to_string_pretty(&stats_json).unwrap()).unwrap(); }
  println!("STATS {}", stats_json);
  if findings.is_empty() && unclassified == 0 { 0 } else { 1 }
}

// ---- replay of one case on the current tree ----
// File: JSON with "input" = the JSON text of a layout file.  Prints what the implementation and the
// model do with it; exit 1 if they disagree, if the implementation panics, or if an accepted layout
// fails the C14 / C15 checks.
pub fn replay(opts: &Opts) -> i32 {
  let path = match opts.get("file") { Some(p) => p, None => { eprintln!("--file required"); return 2; } };
  let text = std::fs::read_to_string(path).expect("cannot read replay file");
  let f: Value = serde_json::from_str(&text).expect("replay file is not JSON");
  let input = f["input"].as_str().expect("input").to_string();
  println!("input: {}", truncate(&input, 2000));
  let v: Value = match serde_json::from_str(&input) {
    Ok(v) => v,
    Err(e) => { println!("the input is not JSON ({}): nothing to compare (the file loader returns Err)", e); println!("REPLAY: clean"); return 0; }
  };
  std::panic::set_hook(Box::new(|_| {}));
  let mut lean = Lean::start();
  let real = real_load(&v);
  println!("implementation: {}", truncate(&describe_real(&real), 4000));
  let model = lean.ask(&format!("LOAD {}", token(&v)));
  println!("model:          {}", truncate(&model, 4000));
  let mut bad = 0;
  if model != show_real(&real) { println!("DIVERGENCE between model and implementation"); bad += 1; }
  if let Real::Panic(_) = &real { println!("C14 violated: the loader panics"); bad += 1; }
  let spec = lean.ask(&format!("C13X {}", token(&v)));
  if spec != "bad-request" {
    println!("declarative expansion: {}", truncate(&spec, 4000));
    if spec != show_real(&real) { println!("C13 violated on the implementation"); bad += 1; }
  }
  if let Real::Ok(l) = &real {
    if !is_wf(l) { println!("C14 violated: the accepted layout is not well-formed"); bad += 1; }
    else if let Err(p) = drive_mapper(l, &mut Rng::new(1), 200) { println!("C14 violated: the mapper panics: {}", p); bad += 1; }
    let pretty = serde_json::to_string_pretty(l).unwrap();
    match serde_json::from_str::<Value>(&pretty).map(|b| real_load(&b)) {
      Ok(Real::Ok(l2)) if l2.mappings == l.mappings => println!("C15: the saved layout reloads as the same layout"),
      other => { println!("C15 violated: saved {} ; reloaded: {}", pretty, other.map(|r| describe_real(&r)).unwrap_or_else(|e| e.to_string())); bad += 1; }
    }
    let ser = lean.ask(&format!("SER {}", fmt::layout(l)));
    if ser != token(&serde_json::to_value(l).unwrap()) { println!("DIVERGENCE: model serialize differs from serde_json::to_value"); bad += 1; }
  }
  lean.finish();
  if bad > 0 { println!("REPLAY: {} problem(s)", bad); 1 } else { println!("REPLAY: clean"); 0 }
}
