// Protocol text for keys, events, layouts and mapper states (mirrors lean/TmVerif/Driver/Proto.lean).

use crate::keys::{Event, KeyCode, Layout, Mapping, Repeat};
use crate::key_transforms::{ResultingRepeat, VerifSnapshot};
use num_traits::FromPrimitive;

pub fn code(k: &KeyCode) -> i32 { *k as i32 }

pub fn key_from_code(c: i64) -> Option<KeyCode> { FromPrimitive::from_i64(c) }

pub fn keys(ks: &[KeyCode]) -> String {
  if ks.is_empty() { "-".to_string() }
  else { ks.iter().map(|k| code(k).to_string()).collect::<Vec<_>>().join(",") }
}

pub fn opt_key(k: &Option<KeyCode>) -> String {
  match k { None => "-".to_string(), Some(k) => code(k).to_string() }
}

pub fn event(e: &Event) -> String {
  match e {
    Event::Pressed(k) => format!("P{}", code(k)),
    Event::Released(k) => format!("R{}", code(k))
  }
}

pub fn events(es: &[Event]) -> String {
  if es.is_empty() { "-".to_string() }
  else { es.iter().map(event).collect::<Vec<_>>().join(",") }
}

pub fn repeat(r: &Repeat) -> String {
  match r {
    Repeat::Normal => "N".to_string(),
    Repeat::Disabled => "D".to_string(),
    Repeat::Special { keys: ks, delay_ms, interval_ms } => format!("S/{}/{}/{}", keys(ks), delay_ms, interval_ms)
  }
}

pub fn rrepeat(r: &ResultingRepeat) -> String {
  match r {
    ResultingRepeat::Disabled => "D".to_string(),
    ResultingRepeat::NoChange => "NC".to_string(),
    ResultingRepeat::Repeating { keys: ks, delay_ms, interval_ms } => format!("S/{}/{}/{}", keys(ks), delay_ms, interval_ms)
  }
}

pub fn mapping(m: &Mapping) -> String {
  format!("{}|{}|{}|{}", keys(&m.from), keys(&m.to), repeat(&m.repeat), keys(&m.absorbing))
}

pub fn layout(l: &Layout) -> String {
  if l.mappings.is_empty() { "-".to_string() }
  else { l.mappings.iter().map(mapping).collect::<Vec<_>>().join(";") }
}

pub fn state(l: &Layout, s: &VerifSnapshot) -> String {
  let act = if s.active_mappings.is_empty() { "-".to_string() } else {
    s.active_mappings.iter().map(|m| {
      match l.mappings.iter().position(|x| x == m) {
        Some(i) => i.to_string(),
        None => "?".to_string()
      }
    }).collect::<Vec<_>>().join(",")
  };
  format!("{}|{}|{}|{}|{}|{}|{}",
    keys(&s.input_pressed_keys), act, keys(&s.pass_through_keys), keys(&s.mapped_output_keys),
    keys(&s.mapped_absorbed_keys), opt_key(&s.absorbing_trigger), opt_key(&s.repeating_trigger))
}

// ---- parsing (for replays and corpus files) ----

pub fn parse_keys(s: &str) -> Option<Vec<KeyCode>> {
  if s == "-" { return Some(vec![]); }
  s.split(',').map(|t| t.parse::<i64>().ok().and_then(key_from_code)).collect()
}

pub fn parse_event(s: &str) -> Option<Event> {
  let k = s.get(1..)?.parse::<i64>().ok().and_then(key_from_code)?;
  if s.starts_with('P') { Some(Event::Pressed(k)) }
  else if s.starts_with('R') { Some(Event::Released(k)) }
  else { None }
}

pub fn parse_events(s: &str) -> Option<Vec<Event>> {
  if s == "-" { return Some(vec![]); }
  s.split(',').map(parse_event).collect()
}

pub fn parse_repeat(s: &str) -> Option<Repeat> {
  let parts: Vec<&str> = s.split('/').collect();
  match parts.as_slice() {
    ["N"] => Some(Repeat::Normal),
    ["D"] => Some(Repeat::Disabled),
    ["S", ks, d, i] => Some(Repeat::Special { keys: parse_keys(ks)?, delay_ms: d.parse().ok()?, interval_ms: i.parse().ok()? }),
    _ => None
  }
}

pub fn parse_mapping(s: &str) -> Option<Mapping> {
  let parts: Vec<&str> = s.split('|').collect();
  if parts.len() != 4 { return None; }
  Some(Mapping { from: parse_keys(parts[0])?, to: parse_keys(parts[1])?, repeat: parse_repeat(parts[2])?, absorbing: parse_keys(parts[3])? })
}

pub fn parse_layout(s: &str) -> Option<Layout> {
  if s == "-" { return Some(Layout { mappings: vec![] }); }
  Some(Layout { mappings: s.split(';').map(parse_mapping).collect::<Option<Vec<_>>>()? })
}

pub fn parse_opt_key(s: &str) -> Option<Option<KeyCode>> {
  if s == "-" { Some(None) } else { Some(Some(s.parse::<i64>().ok().and_then(key_from_code)?)) }
}

pub fn parse_state(l: &Layout, s: &str) -> Option<VerifSnapshot> {
  let parts: Vec<&str> = s.split('|').collect();
  if parts.len() != 7 { return None; }
  let act: Vec<Mapping> = if parts[1] == "-" { vec![] } else {
    parts[1].split(',').map(|t| t.parse::<usize>().ok().and_then(|i| l.mappings.get(i).cloned())).collect::<Option<Vec<_>>>()?
  };
  Some(VerifSnapshot {
    input_pressed_keys: parse_keys(parts[0])?,
    active_mappings: act,
    pass_through_keys: parse_keys(parts[2])?,
    mapped_output_keys: parse_keys(parts[3])?,
    mapped_absorbed_keys: parse_keys(parts[4])?,
    absorbing_trigger: parse_opt_key(parts[5])?,
    repeating_trigger: parse_opt_key(parts[6])?
  })
}

// Human-readable forms for replay files.
pub fn key_name(k: &KeyCode) -> String { format!("{:?}", k) }

pub fn events_human(es: &[Event]) -> String {
  es.iter().map(|e| match e {
    Event::Pressed(k) => format!("{:?}↓", k),
    Event::Released(k) => format!("{:?}↑", k)
  }).collect::<Vec<_>>().join(" ")
}
