// Suite e2e — the REAL driver end to end, at the wire level.
//
// The real `RealDriver` (mio poll = epoll with EPOLLET, `DevInputReader::next`, `TabletModeSwitchReader::next`,
// `DevInputWriter::send`) runs the real `do_remapping_loop_one_device` in its own thread over three pipes
// (hook `remapping_loop::verif::run_real_driver`).  The harness plays the kernel: it writes whole
// `struct input_event` records to the keyboard / tablet-switch pipes in random chunks at random moments (so that
// arrivals race with the loop's draining, which is what edge-triggered readiness is about) and reads what comes
// out of the uinput pipe.  The Lean model predicts the output bytes (`wireOut`, Model/EndToEnd.lean; theorems
// Props/E2E.lean).  Layouts with a Special repeat get a delay of ten minutes: timer chords are C11's subject
// and are checked by the loop suite.
//
// Order of reading across the two devices is made deterministic by synchronisation points: before the harness
// switches to the other device it waits until the pipe it wrote to has been read empty (FIONREAD = 0); the loop
// is single-threaded and finishes with a record before it reads the next one.
//
// A run ends by closing the read end of the uinput pipe and sending one more key press: the write fails with
// EPIPE and the loop must return that error at once (a real-driver instance of C20).

use std::os::unix::io::RawFd;
use std::os::unix::thread::JoinHandleExt;
use std::time::{Duration, Instant};
use std::sync::mpsc::channel;
use crate::keys::{Event, KeyCode, Layout, Repeat};
use crate::key_transforms::Mapper;
use crate::dev_input_rw::DevInputWriter;
use crate::h_util::{Opts, Rng};
use crate::h_lean::Lean;
use crate::h_fmt as fmt;

fn hex(b: &[u8]) -> String { if b.is_empty() { "-".to_string() } else { b.iter().map(|x| format!("{:02x}", x)).collect() } }
fn unhex(s: &str) -> Vec<u8> {
  if s == "-" { return vec![]; }
  (0..s.len() / 2).map(|i| u8::from_str_radix(&s[2*i..2*i+2], 16).unwrap_or(0)).collect()
}

fn record(rng: &mut Rng, type_: u16, code: u16, value: i32) -> Vec<u8> {
  let mut r = Vec::with_capacity(24);
  // the kernel stamps every record; the readers must not care
  let sec = (rng.next() % 2_000_000_000) as i64;
  let usec = (rng.next() % 1_000_000) as i64;
  r.extend_from_slice(&sec.to_ne_bytes());
  r.extend_from_slice(&usec.to_ne_bytes());
  r.extend_from_slice(&type_.to_ne_bytes());
  r.extend_from_slice(&code.to_ne_bytes());
  r.extend_from_slice(&value.to_ne_bytes());
  r
}

macro_rules! rec { ($rng:expr, $t:expr, $c:expr, $v:expr) => {{ let t_ = $t; let c_ = $c; let v_ = $v; record($rng, t_, c_, v_) }} }

fn pipe(read_nonblock: bool) -> (RawFd, RawFd) {
  let mut fds = [0 as libc::c_int; 2];
  let rc = unsafe { libc::pipe(fds.as_mut_ptr()) };
  assert!(rc == 0, "pipe() failed");
  if read_nonblock {
    unsafe { let fl = libc::fcntl(fds[0], libc::F_GETFL); libc::fcntl(fds[0], libc::F_SETFL, fl | libc::O_NONBLOCK); }
  }
  (fds[0], fds[1])
}

fn unread(fd: RawFd) -> i32 {
  let mut n: libc::c_int = 0;
  unsafe { libc::ioctl(fd, libc::FIONREAD, &mut n as *mut libc::c_int); }
  n
}

fn write_all(fd: RawFd, data: &[u8]) {
  let mut off = 0;
  while off < data.len() {
    let n = unsafe { libc::write(fd, data[off..].as_ptr() as *const libc::c_void, data.len() - off) };
    if n <= 0 { break; }
    off += n as usize;
  }
}

fn read_some(fd: RawFd, into: &mut Vec<u8>) {
  let mut buf = [0u8; 65536];
  loop {
    let n = unsafe { libc::read(fd, buf.as_mut_ptr() as *mut libc::c_void, buf.len()) };
    if n <= 0 { break; }
    into.extend_from_slice(&buf[..n as usize]);
  }
}

fn busy_wait(us: u64) {
  let t = Instant::now();
  while t.elapsed() < Duration::from_micros(us) { std::hint::spin_loop(); }
}

#[derive(Clone, Debug)]
pub struct Segment { pub dev: char, pub writes: Vec<Vec<u8>>, pub pauses_us: Vec<u64> }

pub struct RunOut {
  pub out: Vec<u8>,
  pub stuck_unread: i32,        // bytes still unread on an input pipe when the run gave up waiting
  pub stuck_tablet: bool,       // ... and some of them on the tablet-switch pipe
  pub status: String,           // what the loop returned after the closing EPIPE: "err:<msg>" | "ok" | "no-return" | "panic"
  pub late_extra: usize         // bytes that arrived after the expected output was complete
}

// Runs the real driver over pipes.  `expect_len`: the number of output bytes the model predicts (the run waits for
// that many, at most `patience`).
// `marker`: None = synchronised run (the harness waits at every change of device, so the read order is the write order);
// Some(key) = CONCURRENT run: no waiting between the devices; when everything has been read a press of the foreign key
// `key` is written, and the run is complete when its report is the tail of the output.
pub fn run_real(layout: &Layout, segments: &[Segment], expect_len: usize, sentinel: KeyCode, patience: Duration, has_tablet: bool, marker: Option<KeyCode>) -> RunOut {
  let (kr, kw) = pipe(true);
  let (tr, tw) = pipe(true);
  let (or, ow) = pipe(true);
  let l2 = layout.clone();
  let (done_tx, done_rx) = channel::<String>();
  let th = std::thread::spawn(move || {
    let res = std::panic::catch_unwind(std::panic::AssertUnwindSafe(|| {
      crate::remapping_loop::verif::run_real_driver(kr, DevInputWriter::verif_from_fd(ow), if has_tablet { Some(tr) } else { None }, l2)
    }));
    let s = match res { Ok(Ok(())) => "ok".to_string(), Ok(Err(e)) => format!("err:{}", e), Err(_) => "panic".to_string() };
    let _ = done_tx.send(s);
  });
  let mut out: Vec<u8> = Vec::new();
  let mut stuck = 0;
  let mut stuck_tablet = false;
  let t0 = Instant::now();
  'segs: for seg in segments {
    let fd_w = if seg.dev == 'k' { kw } else { tw };
    let fd_r = if seg.dev == 'k' { kr } else { tr };
    for (i, w) in seg.writes.iter().enumerate() {
      if seg.pauses_us[i] > 0 { busy_wait(seg.pauses_us[i]); }
      write_all(fd_w, w);
      read_some(or, &mut out);
    }
    if marker.is_some() { continue; }
    // synchronisation point: everything written to this device has been read
    loop {
      read_some(or, &mut out);
      let n = unread(fd_r);
      if n == 0 { break; }
      if t0.elapsed() > patience { stuck = n; stuck_tablet = seg.dev == 't'; break 'segs; }
      std::thread::yield_now();
    }
  }
  if let Some(mk) = marker {
    // everything written so far must get read, on both devices
    loop {
      read_some(or, &mut out);
      let n = unread(kr) + unread(tr);
      if n == 0 { break; }
      if t0.elapsed() > patience { stuck = n; stuck_tablet = unread(tr) > 0; break; }
      std::thread::yield_now();
    }
    if stuck == 0 {
      let mut r = Rng::new(11);
      write_all(kw, &record(&mut r, 1, mk as u16, 1));
      let tail = marker_report(mk);
      while !out.ends_with(&tail) && t0.elapsed() < patience { read_some(or, &mut out); std::thread::yield_now(); }
    }
  }
  else if stuck == 0 {
    while out.len() < expect_len && t0.elapsed() < patience { read_some(or, &mut out); std::thread::yield_now(); }
  }
  let complete_at = out.len();
  // anything the loop writes that the model does not predict
  busy_wait(300);
  read_some(or, &mut out);
  let late_extra = out.len() - complete_at;
  // closing: the uinput side goes away, one more key press makes the next write fail
  unsafe { libc::close(or); }
  let mut r = Rng::new(7);
  write_all(kw, &record(&mut r, 1, sentinel as u16, 1));
  let status = match done_rx.recv_timeout(if stuck > 0 { Duration::from_millis(300) } else { Duration::from_millis(10000) }) { Ok(s) => s, Err(_) => "no-return".to_string() };
  if status != "no-return" {
    let _ = th.join();
    unsafe { libc::close(kr); libc::close(tr); libc::close(ow); }
  }
  unsafe { libc::close(kw); libc::close(tw); }
  RunOut { out, stuck_unread: stuck, stuck_tablet, status, late_extra }
}

pub fn marker_report(k: KeyCode) -> Vec<u8> {
  let mut v = vec![0u8; 16];
  v.extend_from_slice(&1u16.to_le_bytes());
  v.extend_from_slice(&(k as u16).to_le_bytes());
  v.extend_from_slice(&1i32.to_le_bytes());
  v.extend_from_slice(&[0u8; 24]);
  v
}

// the reference at the event level: the real Mapper stepped once per event of the read log
fn reference_batches(layout: &Layout, log: &[LogItem]) -> Vec<Vec<Event>> {
  let mut m = Mapper::for_layout(layout);
  let mut tablet = false;
  let mut res = Vec::new();
  for it in log {
    match it {
      LogItem::Key(ev) => { if !tablet { let r = m.step(ev.clone()); if !r.events.is_empty() { res.push(r.events); } } },
      LogItem::Tab(on) => { let evs = m.release_all(); if !evs.is_empty() { res.push(evs); } tablet = *on; }
    }
  }
  res
}

// the output bytes as batches of events (None: not a sequence of well-formed reports)
fn parse_batches(out: &[u8]) -> Option<Vec<Vec<Event>>> {
  if out.len() % 24 != 0 { return None; }
  let mut res = Vec::new();
  let mut cur: Vec<Event> = Vec::new();
  for rec in out.chunks(24) {
    if rec[..16].iter().any(|b| *b != 0) { return None; }
    let t = u16::from_le_bytes([rec[16], rec[17]]);
    let c = u16::from_le_bytes([rec[18], rec[19]]);
    let v = i32::from_le_bytes([rec[20], rec[21], rec[22], rec[23]]);
    if t == 0 && c == 0 && v == 0 { res.push(std::mem::take(&mut cur)); continue; }
    if t != 1 { return None; }
    let k = fmt::key_from_code(c as i64)?;
    match v { 1 => cur.push(Event::Pressed(k)), 0 => cur.push(Event::Released(k)), _ => return None }
  }
  if !cur.is_empty() { return None; }
  Some(res)
}

#[derive(Clone, Debug)]
pub enum LogItem { Key(Event), Tab(bool) }

struct Case { segments: Vec<Segment>, log: Vec<LogItem>, junk: usize, max_chunk_records: usize, n_writes: usize }

fn gen_case(rng: &mut Rng, alphabet: &[KeyCode], tablet: bool, thorough: bool) -> Case {
  let len = if rng.chance(1, 8) { rng.range(30, if thorough { 400 } else { 120 }) } else { rng.range(1, 14) };
  let mut held: Vec<KeyCode> = Vec::new();
  let mut recs: Vec<(char, Vec<u8>)> = Vec::new();
  let mut log = Vec::new();
  let mut junk = 0;
  let mut mode = false;
  for _ in 0..len {
    if tablet && rng.chance(1, 7) {
      match rng.below(6) {
        0 | 1 | 2 => { let on = if rng.chance(1, 5) { mode } else { !mode }; mode = on; recs.push(('t', rec!(rng, 5, 1, if on { 1 } else { 0 }))); log.push(LogItem::Tab(on)); },
        3 => { recs.push(('t', rec!(rng, 5, [0u16, 2, 3, 13][rng.below(4)], (rng.below(2)) as i32))); junk += 1; },   // another switch (lid, headphone, ...)
        4 => { recs.push(('t', rec!(rng, 5, 1, [2, -1, 256, 65536][rng.below(4)]))); junk += 1; },                          // not 0 / 1
        _ => { recs.push(('t', rec!(rng, 0, 0, 0))); junk += 1; }                                                          // the SYN_REPORT after a switch event
      }
      continue;
    }
    let k = *rng.pick(alphabet);
    let ill = rng.chance(1, 12);
    let ev = if held.contains(&k) != ill { held.retain(|x| *x != k); Event::Released(k) } else { if !held.contains(&k) { held.push(k); } Event::Pressed(k) };
    // what a real keyboard sends around a key event
    if rng.chance(1, 3) { recs.push(('k', rec!(rng, 4, 4, (rng.next() % 0x70100) as i32))); junk += 1; }     // MSC_SCAN
    let (code, value) = match ev { Event::Pressed(k) => (k as u16, 1), Event::Released(k) => (k as u16, 0) };
    recs.push(('k', rec!(rng, 1, code, value)));
    log.push(LogItem::Key(ev));
    if rng.chance(1, 2) { recs.push(('k', rec!(rng, 0, 0, 0))); junk += 1; }                                   // SYN_REPORT
    if rng.chance(1, 10) { recs.push(('k', rec!(rng, 1, code, 2))); junk += 1; }                               // autorepeat
    if rng.chance(1, 25) { recs.push(('k', rec!(rng, 1, [0x2ffu16, 600, 0xffff, 84][rng.below(4)], rng.below(2) as i32))); junk += 1; }   // a code the table does not know
    if rng.chance(1, 30) { recs.push(('k', rec!(rng, 17, rng.below(4) as u16, rng.below(2) as i32))); junk += 1; }                       // EV_LED
  }
  if tablet && mode { recs.push(('t', rec!(rng, 5, 1, 0))); log.push(LogItem::Tab(false)); }
  // segments: maximal runs on one device, each cut into writes of whole records
  let mut segments: Vec<Segment> = Vec::new();
  let mut max_chunk = 0;
  let mut n_writes = 0;
  let style = rng.below(4);     // 0: one record per write, 1: small chunks, 2: big chunks, 3: mixed
  let mut i = 0;
  while i < recs.len() {
    let dev = recs[i].0;
    let mut j = i;
    while j < recs.len() && recs[j].0 == dev { j += 1; }
    let mut writes = Vec::new();
    let mut pauses = Vec::new();
    let mut a = i;
    while a < j {
      let n = match style { 0 => 1, 1 => rng.range(1, 3), 2 => rng.range(8, 160), _ => if rng.chance(1, 2) { 1 } else { rng.range(2, 40) } };
      let b = std::cmp::min(j, a + std::cmp::min(n, 170));
      let mut w = Vec::new();
      for r in &recs[a..b] { w.extend_from_slice(&r.1); }
      max_chunk = std::cmp::max(max_chunk, b - a);
      writes.push(w);
      pauses.push(match rng.below(5) { 0 => 0, 1 => rng.below(8) as u64, 2 => rng.below(40) as u64, 3 => rng.below(150) as u64, _ => 0 });
      n_writes += 1;
      a = b;
    }
    segments.push(Segment { dev, writes, pauses_us: pauses });
    i = j;
  }
  Case { segments, log, junk, max_chunk_records: max_chunk, n_writes }
}

fn chunks_arg(segments: &[Segment]) -> String {
  let mut parts = Vec::new();
  for s in segments { for w in &s.writes { parts.push(format!("{}{}", s.dev, hex(w).replace("-", ""))); } }
  if parts.is_empty() { "-".to_string() } else { parts.join(",") }
}

fn no_timer(layout: &Layout) -> Layout {
  let mut l = layout.clone();
  for m in l.mappings.iter_mut() {
    if let Repeat::Special { keys, interval_ms, .. } = &m.repeat { m.repeat = Repeat::Special { keys: keys.clone(), delay_ms: 600_000, interval_ms: *interval_ms }; }
  }
  l
}

fn sentinel_for(alphabet: &[KeyCode], layout: &Layout, not: Option<KeyCode>) -> Option<KeyCode> {
  let used = crate::h_layouts::layout_keys(layout);
  for k in [KeyCode::F13, KeyCode::F14, KeyCode::F15, KeyCode::F16, KeyCode::F17, KeyCode::KPASTERISK, KeyCode::SCROLLLOCK].iter() {
    if !used.contains(k) && !alphabet.contains(k) && Some(*k) != not { return Some(*k); }
  }
  None
}


// ---------- timed runs: the repeat timer on the real clock (real epoll time-outs, real Instant::now) ----------
//
// A Special-repeat mapping is fired and held; the harness records WHEN each report arrives.  Three checks, all of
// them sound under any scheduling delay (they only use "not earlier than" facts):
//   * the bytes are `wireOfTLog` (request E2ET) for SOME placement of timer ticks in the gaps in which a timer is armed;
//   * the k-th chord after an arming press arrives no earlier than (time just before that press was written) + delay + k*interval;
//   * the number of chords in a gap is at most what fits before the cancelling record was seen to have been read.
struct TimedStep { dev: char, rec: Vec<u8>, arms: Option<(u64, u64)>, hold_ms: u64, signal_after_ms: Option<u64> }

fn timed_case(rng: &mut Rng, force_signal: bool) -> (Layout, Vec<TimedStep>, String) {
  use crate::keys::Mapping;
  use KeyCode::*;
  let d1 = [15u64, 25, 40][rng.below(3)]; let i1 = [8u64, 12, 20][rng.below(3)];
  let d2 = [60u64, 90][rng.below(2)]; let i2 = [25u64, 35][rng.below(2)];
  let chord: Vec<KeyCode> = match rng.below(4) { 0 => vec![F20], 1 => vec![LEFTCTRL, F20], 2 => vec![X, LEFTCTRL, F20], _ => vec![LEFTCTRL, X, F20] };
  let layout = Layout { mappings: vec![
    Mapping { from: vec![A], to: vec![B], repeat: Repeat::Special { keys: chord.clone(), delay_ms: d1 as i32, interval_ms: i1 as i32 }, ..Default::default() },
    Mapping { from: vec![C], to: vec![D], ..Default::default() },
    Mapping { from: vec![E], to: vec![F], repeat: Repeat::Special { keys: chord.clone(), delay_ms: d2 as i32, interval_ms: i2 as i32 }, ..Default::default() },
  ] };
  let mut steps = Vec::new();
  let key = |rng: &mut Rng, k: KeyCode, v: i32| rec!(rng, 1, k as u16, v);
  if rng.chance(1, 2) { steps.push(TimedStep { dev: 'k', rec: key(rng, LEFTCTRL, 1), arms: None, hold_ms: 0, signal_after_ms: None }); }
  let r = rng.range(1, 3) as u64;
  steps.push(TimedStep { dev: 'k', rec: key(rng, A, 1), arms: Some((d1, i1)), hold_ms: d1 + i1 * r + i1 / 2, signal_after_ms: None });
  let variant = if force_signal { 4 } else { rng.below(5) };
  if variant == 4 {
    // a signal interrupts the wait for the first chord (poll returns Interrupted; the loop must recompute the time left)
    let d = [300u64, 400][rng.below(2)]; let iv = [150u64, 200][rng.below(2)];
    let layout = Layout { mappings: vec![
      Mapping { from: vec![A], to: vec![B], repeat: Repeat::Special { keys: chord.clone(), delay_ms: d as i32, interval_ms: iv as i32 }, ..Default::default() } ] };
    let steps = vec![
      TimedStep { dev: 'k', rec: key(rng, A, 1), arms: Some((d, iv)), hold_ms: d + iv + iv / 2, signal_after_ms: Some(d * 6 / 10) },
      TimedStep { dev: 'k', rec: key(rng, A, 0), arms: None, hold_ms: 30, signal_after_ms: None } ];
    return (layout, steps, format!("variant 4 (signal at {} ms) delay {} interval {} chord {:?}", d * 6 / 10, d, iv, chord));
  }
  match variant {
    0 => {},
    1 => { steps.push(TimedStep { dev: 'k', rec: key(rng, C, 1), arms: None, hold_ms: d1 + 2 * i1, signal_after_ms: None }); },                    // any accepted key event cancels
    2 => { let on_hold = if rng.chance(1, 2) { 0 } else { d1 + 2 * i1 };      // On and Off in quick succession, or a stay in tablet mode
           steps.push(TimedStep { dev: 't', rec: rec!(rng, 5, 1, 1), arms: None, hold_ms: on_hold, signal_after_ms: None });                   // so does tablet mode
           steps.push(TimedStep { dev: 't', rec: rec!(rng, 5, 1, 0), arms: None, hold_ms: d1 + i1, signal_after_ms: None }); },
    _ => { steps.push(TimedStep { dev: 'k', rec: key(rng, E, 1), arms: Some((d2, i2)), hold_ms: d2 + i2 + i2 / 2, signal_after_ms: None }); }       // a second Special mapping has its own schedule
  }
  steps.push(TimedStep { dev: 'k', rec: key(rng, A, 0), arms: None, hold_ms: d1 + 2 * i1, signal_after_ms: None });
  (layout, steps, format!("variant {} delay {} interval {} (second mapping {} / {}) chord {:?}", variant, d1, i1, d2, i2, chord))
}

extern "C" fn noop_handler(_: libc::c_int) {}

fn timed_runs(lean: &mut Lean, rng: &mut Rng, n: usize, findings: &mut Vec<serde_json::Value>, stats: &mut (u64, u64, u64, u64, u64)) {
  unsafe {
    // no SA_RESTART: epoll_wait must return EINTR
    let mut sa: libc::sigaction = std::mem::zeroed();
    sa.sa_sigaction = noop_handler as usize;
    libc::sigemptyset(&mut sa.sa_mask);
    libc::sigaction(libc::SIGUSR1, &sa, std::ptr::null_mut());
  }
  for run_i in 0..n {
    let (layout, steps, descr) = timed_case(rng, run_i < 2);
    let layout_txt = fmt::layout(&layout);
    if lean.ask(&format!("L {}", layout_txt)) != "wf" { continue; }
    let (kr, kw) = pipe(true); let (tr, tw) = pipe(true); let (or, ow) = pipe(true);
    let l2 = layout.clone();
    let (done_tx, done_rx) = channel::<String>();
    let th = std::thread::spawn(move || {
      let res = std::panic::catch_unwind(std::panic::AssertUnwindSafe(|| crate::remapping_loop::verif::run_real_driver(kr, DevInputWriter::verif_from_fd(ow), Some(tr), l2)));
      let _ = done_tx.send(match res { Ok(Ok(())) => "ok".to_string(), Ok(Err(e)) => format!("err:{}", e), Err(_) => "panic".to_string() });
    });
    let t0 = Instant::now();
    let mut out: Vec<u8> = Vec::new();
    let mut arrivals: Vec<(usize, u64)> = Vec::new();        // (bytes seen so far, microseconds)
    let mut written_at: Vec<u64> = Vec::new();               // just BEFORE each record was written
    let mut read_by: Vec<u64> = Vec::new();                  // when the record was seen to have been read
    let mut stuck = false;
    let mut signal_sent_at: Option<u64> = None;
    let mut worst_nap_us = 0u64;      // the harness's own 200 us naps: how late does this machine wake a thread right now?
    for st in &steps {
      written_at.push(t0.elapsed().as_micros() as u64);
      write_all(if st.dev == 'k' { kw } else { tw }, &st.rec);
      loop {
        let before = out.len(); read_some(or, &mut out); if out.len() > before { arrivals.push((out.len(), t0.elapsed().as_micros() as u64)); }
        if unread(if st.dev == 'k' { kr } else { tr }) == 0 { break; }
        if t0.elapsed() > Duration::from_secs(10) { stuck = true; break; }
      }
      read_by.push(t0.elapsed().as_micros() as u64);
      let started = Instant::now();
      let until = started + Duration::from_millis(st.hold_ms);
      let mut signalled = false;
      while Instant::now() < until {
        let before = out.len(); read_some(or, &mut out); if out.len() > before { arrivals.push((out.len(), t0.elapsed().as_micros() as u64)); }
        if let Some(ms) = st.signal_after_ms {
          if !signalled && started.elapsed() >= Duration::from_millis(ms) {
            signalled = true;
            signal_sent_at = Some(t0.elapsed().as_micros() as u64);
            unsafe { libc::pthread_kill(th.as_pthread_t(), libc::SIGUSR1); }
          }
        }
        let nap = Instant::now();
        std::thread::sleep(Duration::from_micros(200));
        let over = nap.elapsed().as_micros() as u64;
        if over > worst_nap_us { worst_nap_us = over; }
      }
    }
    unsafe { libc::close(or); }
    let mut r7 = Rng::new(7);
    write_all(kw, &rec!(&mut r7, 1, KeyCode::F13 as u16, 1));
    let status = match done_rx.recv_timeout(Duration::from_secs(10)) { Ok(s) => s, Err(_) => "no-return".to_string() };
    if status != "no-return" { let _ = th.join(); unsafe { libc::close(kr); libc::close(tr); libc::close(ow); } }
    unsafe { libc::close(kw); libc::close(tw); }
    stats.0 += 1;
    // gaps in which a timer is armed: after an arming press, up to the next record
    let n_steps = steps.len();
    let base: Vec<String> = steps.iter().map(|st| format!("{}{}", st.dev, hex(&st.rec))).collect();
    let reports_total = out.len() / 48 + 0;   // every report of these layouts is one key record + SYN or a chord; counted below per batch instead
    let _ = reports_total;
    let batches = parse_batches(&out);
    let armed_gaps: Vec<usize> = (0..n_steps).filter(|j| steps[*j].arms.is_some()).collect();
    // all placements of up to 12 ticks per armed gap
    let mut placement: Option<Vec<usize>> = None;
    // at most what the real time of the gap allows (a loaded machine stretches the harness's own waits)
    let max_ts: Vec<usize> = armed_gaps.iter().map(|g| {
      let end = if *g + 1 < n_steps { read_by[*g + 1] } else { t0.elapsed().as_micros() as u64 };
      let (_, iv) = steps[*g].arms.unwrap();
      ((end.saturating_sub(written_at[*g])) / (1000 * iv.max(1))) as usize + 3
    }).collect();
    let mut counts = vec![0usize; armed_gaps.len()];
    'search: loop {
      let mut parts: Vec<String> = Vec::new();
      for j in 0..n_steps { parts.push(base[j].clone()); if let Some(gi) = armed_gaps.iter().position(|g| *g == j) { for _ in 0..counts[gi] { parts.push("x".to_string()); } } }
      if unhex(&lean.ask(&format!("E2ET {}", parts.join(",")))) == out && !(out.is_empty() && false) { placement = Some(counts.clone()); break 'search; }
      let mut k = 0;
      loop { if k == counts.len() { break 'search; } counts[k] += 1; if counts[k] <= max_ts[k] { break; } counts[k] = 0; k += 1; }
    }
    let mut problem: Option<String> = None;
    if stuck { problem = Some("the loop stopped reading".to_string()); }
    else if status == "panic" { problem = Some("the loop panicked".to_string()); }
    else if batches.is_none() { problem = Some("the bytes written are not a sequence of well-formed key reports".to_string()); }
    else if placement.is_none() { problem = Some(format!("the bytes written are not the step outputs plus repeat chords for ANY placement of timer ticks: wrote {:?}", batches.as_ref().unwrap().iter().map(|b| fmt::events(b)).collect::<Vec<_>>())); }
    else {
      // arrival time of the n-th report = the first arrival that covers its last byte
      let b = batches.as_ref().unwrap();
      let mut ends: Vec<usize> = Vec::new(); let mut acc = 0usize; for x in b { acc += 24 * (x.len() + 1); ends.push(acc); }
      let arrival_of = |ri: usize| -> u64 { arrivals.iter().find(|a| a.0 >= ends[ri]).map(|a| a.1).unwrap_or(0) };
      // index of the first report after step j's own output = number of reports the model gives for the prefix up to and including step j with the ticks placed before it
      let counts = placement.clone().unwrap();
      let mut parts: Vec<String> = Vec::new();
      for j in 0..n_steps {
        parts.push(base[j].clone());
        if let Some(gi) = armed_gaps.iter().position(|g| *g == j) {
          let reply0 = lean.ask(&format!("E2ET {}", parts.join(",")));
          let first = unhex(&reply0).len();     // bytes before the first chord of this gap
          let (d, iv) = steps[j].arms.unwrap();
          for k in 0..counts[gi] {
            parts.push("x".to_string());
            let upto = unhex(&lean.ask(&format!("E2ET {}", parts.join(",")))).len();
            if upto == first + 0 && k == 0 { continue; }   // an empty chord leaves no trace
            if let Some(ri) = ends.iter().position(|e| *e == upto) {
              let at = arrival_of(ri);
              let earliest = written_at[j] + 1000 * (d + (k as u64) * iv);
              stats.1 += 1;
              // mio 0.7 hands the poll timeout to epoll_wait in WHOLE milliseconds, rounded down (`to.as_millis()`), and the
              // loop writes the chord on every TimedOut without comparing the clock with next_wakeup: a chord can be up to
              // 1 ms early (never more: next_wakeup stays on the grid press + delay + k*interval, so nothing accumulates).
              // C11 is stated in milliseconds ("at most delay_ms", "once per interval_ms without drift"): 1 ms is allowed.
              // after a signal: the loop must have recomputed the time left (poll returned Interrupted), not waited the whole
              // timeout again.  Lateness is only judged when the machine is quiet (the harness's own naps overshoot by < 5 ms),
              // and only against a bound of a third of the time that would be waited twice.
              if let (Some(sig), Some(ms)) = (signal_sent_at, steps[j].signal_after_ms) {
                if k == 0 && sig > written_at[j] && worst_nap_us < 5_000 {
                  stats.3 += 1;
                  let allowed = read_by[j] + 1000 * d + 1000 * ms / 3;
                  if at > allowed { problem = Some(format!("a signal interrupted the wait for the first repeat chord {} ms after the press; the chord arrived at {} us, more than {} ms after its deadline {} us (the time already waited was waited again?)", ms, at, ms / 3, read_by[j] + 1000 * d)); }
                }
              }
              if at + 1000 < earliest { problem = Some(format!("repeat chord {} after the press written at {} us arrived at {} us, before its deadline {} us (delay {} ms, interval {} ms)", k, written_at[j], at, earliest, d, iv)); }
            }
          }
          // what fits before the next record was seen to have been read
          if j + 1 < n_steps && counts[gi] > 0 {
            let last_deadline = written_at[j] + 1000 * (d + (counts[gi] as u64 - 1) * iv);
            if last_deadline > read_by[j + 1] + 1000 { problem = Some(format!("{} repeat chords were written although only the deadlines up to {} us had passed when the cancelling record had been read ({} us)", counts[gi], last_deadline, read_by[j + 1])); }
          }
          // liveness, guarded like the signal check: on a machine that demonstrably wakes threads on time right now, a gap
          // that lasted at least delay + 60 ms must contain a chord (these chords are never empty: F20 is never held)
          let gap_end = if j + 1 < n_steps { written_at[j + 1] } else { 0 };
          if counts[gi] == 0 && worst_nap_us < 5_000 && gap_end >= read_by[j] + 1000 * (d + 60) {
            problem = Some(format!("no repeat chord was written although the timer had been armed for {} ms (delay {} ms)", (gap_end - read_by[j]) / 1000, d));
          }
          if worst_nap_us < 5_000 && gap_end >= read_by[j] + 1000 * (d + 60) { stats.4 += 1; }
          stats.2 += counts[gi] as u64;
        }
      }
    }
    if let Some(what) = problem {
      findings.push(serde_json::json!({"suite":"e2e","kind":"property","properties":["C11"],"check":"timed","what":what,"case":descr,"layout":layout_txt,"layout_json":crate::h_mapper::layout_to_json(&layout),
        "records": steps.iter().map(|st| serde_json::json!({"dev": st.dev.to_string(), "record": hex(&st.rec), "then_wait_ms": st.hold_ms})).collect::<Vec<_>>(),
        "written_at_us": written_at, "seen_read_by_us": read_by, "arrivals": arrivals.iter().map(|a| serde_json::json!([a.0, a.1])).collect::<Vec<_>>(), "implementation_bytes": hex(&out), "closing_status": status}));
      if findings.len() >= 3 { return; }
    }
  }
}

// ---------- a full virtual-keyboard buffer: the write fails with EAGAIN (the descriptor is non-blocking, as /dev/uinput is) ----------
// C20: any failed write stops the loop at once, and nothing further is written.
fn full_buffer_runs(rng: &mut Rng, n: usize, findings: &mut Vec<serde_json::Value>) -> u64 {
  use crate::keys::Mapping;
  let mut done = 0u64;
  for _ in 0..n {
    let layout = Layout { mappings: vec![Mapping { from: vec![KeyCode::A], to: vec![KeyCode::B], ..Default::default() }] };
    let (kr, kw) = pipe(true); let (or, ow) = pipe(true);
    unsafe { let fl = libc::fcntl(ow, libc::F_GETFL); libc::fcntl(ow, libc::F_SETFL, fl | libc::O_NONBLOCK); }
    // fill the buffer to the brim with zero bytes
    let filler = [0u8; 4096];
    let mut filled = 0usize;
    loop { let n = unsafe { libc::write(ow, filler.as_ptr() as *const libc::c_void, filler.len()) }; if n <= 0 { break; } filled += n as usize; }
    loop { let n = unsafe { libc::write(ow, filler.as_ptr() as *const libc::c_void, 1) }; if n <= 0 { break; } filled += 1; }
    let l2 = layout.clone();
    let (done_tx, done_rx) = channel::<String>();
    let th = std::thread::spawn(move || {
      let res = std::panic::catch_unwind(std::panic::AssertUnwindSafe(|| crate::remapping_loop::verif::run_real_driver(kr, DevInputWriter::verif_from_fd(ow), None, l2)));
      let _ = done_tx.send(match res { Ok(Ok(())) => "ok".to_string(), Ok(Err(e)) => format!("err:{}", e), Err(_) => "panic".to_string() });
    });
    // some events that write nothing first, then the press that must be written
    let pre = rng.below(3);
    for _ in 0..pre { write_all(kw, &rec!(rng, 4, 4, 30)); write_all(kw, &rec!(rng, 0, 0, 0)); }
    write_all(kw, &rec!(rng, 1, KeyCode::A as u16, 1));
    let status = match done_rx.recv_timeout(Duration::from_secs(10)) { Ok(s) => s, Err(_) => "no-return".to_string() };
    done += 1;
    let mut problem: Option<String> = None;
    if !status.starts_with("err:") {
      problem = Some(format!("the write to the virtual keyboard failed with EAGAIN (its buffer was full: {} bytes) and the loop did not return the error: {}", filled, status));
    }
    // whatever is in the buffer now must still be the filler only
    let mut drained: Vec<u8> = Vec::new();
    read_some(or, &mut drained);
    if status == "no-return" {
      // let the stuck loop go: more input, then the uinput side disappears
      write_all(kw, &rec!(rng, 1, KeyCode::A as u16, 0));
      std::thread::sleep(Duration::from_millis(20));
      read_some(or, &mut drained);
      unsafe { libc::close(or); }
      write_all(kw, &rec!(rng, 1, KeyCode::F13 as u16, 1));
      if done_rx.recv_timeout(Duration::from_secs(2)).is_ok() { let _ = th.join(); unsafe { libc::close(kr); libc::close(ow); } }
    }
    else { let _ = th.join(); unsafe { libc::close(or); libc::close(kr); libc::close(ow); } }
    unsafe { libc::close(kw); }
    if problem.is_none() && drained.iter().any(|b| *b != 0) { problem = Some("after the failed write further bytes were written to the virtual keyboard".to_string()); }
    if let Some(what) = problem {
      findings.push(serde_json::json!({"suite":"e2e","kind":"property","properties":["C20"],"check":"full-buffer","what":what,"layout":fmt::layout(&layout),
        "records_before_the_press": pre * 2, "closing_status": status, "bytes_after_the_failure": hex(&drained.iter().cloned().filter(|b| *b != 0).collect::<Vec<u8>>())}));
      return done;
    }
  }
  done
}

struct Verdict { kind: &'static str, props: Vec<&'static str>, what: String }

// judges one run; `ask` = the model's reply to E2E
fn judge(layout: &Layout, case_log: &[LogItem], has_tablet: bool, model_hex: &str, r: &RunOut) -> Option<Verdict> {
  let expected = unhex(model_hex);
  let tablet_in_log = case_log.iter().any(|i| matches!(i, LogItem::Tab(_)));
  let own: &'static str = if tablet_in_log { "C12" } else { "C10" };
  if r.status == "panic" { return Some(Verdict { kind: "property", props: vec!["C14"], what: "the loop panicked".to_string() }); }
  if r.stuck_unread > 0 {
    // an unread tablet-switch record is also C12's: the switch was flipped and the virtual keyboard is not silenced / resumed
    return Some(Verdict { kind: "property", props: if r.stuck_tablet { vec!["C10", "C12"] } else { vec!["C10"] }, what: format!("the loop stopped reading: {} bytes that had arrived (and were notified) stayed unread while it waited{}", r.stuck_unread, if r.stuck_tablet { " (tablet-switch records among them)" } else { "" }) });
  }
  if r.out != expected {
    let reference = reference_batches(layout, case_log);
    let got = parse_batches(&r.out);
    return Some(match got {
      None => Verdict { kind: "property", props: vec!["C18"], what: "the bytes written are not a sequence of well-formed key reports".to_string() },
      Some(b) if b != reference => Verdict { kind: "property", props: vec![own], what: format!("the writes are not the mapper's outputs for the events read, once each and in order: wrote {:?}, the mapper gives {:?}", b.iter().map(|x| fmt::events(x)).collect::<Vec<_>>(), reference.iter().map(|x| fmt::events(x)).collect::<Vec<_>>()) },
      Some(_) => Verdict { kind: "divergence", props: vec![], what: "the loop writes what the real mapper gives, but the model predicts other bytes".to_string() }
    });
  }
  if r.late_extra > 0 { return Some(Verdict { kind: "property", props: vec![own], what: "further bytes were written after the outputs for everything read were complete".to_string() }); }
  let _ = has_tablet;
  if r.status == "no-return" || r.status == "ok" {
    return Some(Verdict { kind: "property", props: vec!["C20"], what: format!("after the write to the virtual keyboard failed (EPIPE) the loop did not return the error: {}", r.status) });
  }
  None
}

pub fn run(opts: &Opts) -> i32 {
  let seed = opts.num("seed", 1);
  let thorough = opts.thorough();
  let mut rng = Rng::new(seed ^ 0xE2E);
  let out_dir = opts.get_or("out", "/verif/harness/tmp/e2e").to_string();
  let _ = std::fs::create_dir_all(&out_dir);
  if let Ok(rd) = std::fs::read_dir(&out_dir) { for e in rd.filter_map(|e| e.ok()) { if e.file_name().to_string_lossy().starts_with("finding") { let _ = std::fs::remove_file(e.path()); } } }
  let sources = crate::h_loop::layout_sources(opts, &mut rng);
  let per_layout = opts.num("runs", if thorough { 12 } else { 3 }) as usize;
  let patience = Duration::from_millis(opts.num("patience-ms", 10000));
  let mut lean = Lean::start();
  let mut findings: Vec<serde_json::Value> = Vec::new();
  let (mut cases, mut divergences, mut violations) = (0u64, 0u64, 0u64);
  let (mut records, mut junk, mut writes, mut tablet_runs, mut tablet_events, mut out_bytes, mut sends, mut multi, mut big) = (0u64, 0u64, 0u64, 0u64, 0u64, 0u64, 0u64, 0u64, 0u64);
  let mut max_chunk = 0usize;
  let mut distinct: std::collections::HashSet<String> = std::collections::HashSet::new();
  let mut samples: Vec<String> = Vec::new();
  let mut tdec_checked = 0u64;
  let mut concurrent_runs = 0u64;

  // the tablet-switch reader alone, record by record: every (type, code, value) around the accepted ones
  {
    let (tr, tw) = pipe(true);
    let mut reader = crate::tablet_mode_switch_reader::TabletModeSwitchReader { fd: tr };
    let mut r2 = Rng::new(seed ^ 0x7AB);
    for type_ in [0u16, 1, 4, 5, 6, 17, 0x105, 0xffff].iter() { for code in [0u16, 1, 2, 0x101, 0xffff].iter() { for value in [0i32, 1, 2, -1, 256, 0x10000, 0x1000000, i32::MIN].iter() {
      let rec = record(&mut r2, *type_, *code, *value);
      write_all(tw, &rec);
      let got = match reader.next() { Ok(crate::tablet_mode_switch_reader::TableModeEvent::On) => "on", Ok(crate::tablet_mode_switch_reader::TableModeEvent::Off) => "off", Err(_) => "-" };
      lean.expect(6, 0, format!("TDEC {}", hex(&rec)), got.to_string());
      tdec_checked += 1;
    } } }
    unsafe { libc::close(tr); libc::close(tw); }
    let (n, ms) = lean.sync();
    if n > 0 {
      for m in ms.iter().take(3) {
        divergences += 1;
        findings.push(serde_json::json!({"suite":"e2e","kind":"divergence","properties":[],"check":"tablet-record","request":m.req,"model":m.got,"implementation":m.expected}));
      }
    }
  }

  let mut timed_stats = (0u64, 0u64, 0u64, 0u64, 0u64);
  {
    let n_timed = opts.num("timed", if thorough { 60 } else { 8 }) as usize;
    let before = findings.len();
    let mut r4 = rng.fork(4);
    timed_runs(&mut lean, &mut r4, n_timed, &mut findings, &mut timed_stats);
    violations += (findings.len() - before) as u64;
  }

  let full_buffer_done = {
    let before = findings.len();
    let mut r5 = rng.fork(5);
    let n = full_buffer_runs(&mut r5, if thorough { 12 } else { 3 }, &mut findings);
    violations += (findings.len() - before) as u64;
    n
  };

  'outer: for (name, layout0, alphabet) in &sources {
    if !crate::h_mapper::is_wf(layout0) { continue; }
    let layout = no_timer(layout0);
    let layout_txt = fmt::layout(&layout);
    let reply = lean.ask(&format!("L {}", layout_txt));
    if reply != "wf" { continue; }
    // a foreign key closes each run (and another one delimits concurrent runs): a layout that leaves none free is skipped
    let sentinel = match sentinel_for(alphabet, &layout, None) { Some(k) => k, None => continue };
    let marker = sentinel_for(alphabet, &layout, Some(sentinel)).unwrap_or(sentinel);
    for _ in 0..per_layout {
      let tablet = rng.chance(2, 5);
      let case = gen_case(&mut rng, alphabet, tablet, thorough);
      // (the acceptor explores the interleavings of the two per-device logs depth-first: short logs only)
      let n_tab = case.log.iter().filter(|i| matches!(i, LogItem::Tab(_))).count();
      if tablet && marker != sentinel && case.log.len() <= 16 && n_tab <= 4 && rng.chance(2, 3) {
        // CONCURRENT run: both devices become readable while the loop is busy; any read order across the devices is
        // legitimate, the output must be the model's output for SOME interleaving of the two per-device logs
        let r = run_real(&layout, &case.segments, 0, sentinel, if violations > 0 { std::cmp::min(patience, Duration::from_millis(500)) } else { patience }, true, Some(marker));
        cases += 1; concurrent_runs += 1; tablet_runs += 1;
        records += case.segments.iter().map(|s| s.writes.iter().map(|w| w.len() / 24).sum::<usize>()).sum::<usize>() as u64;
        junk += case.junk as u64; writes += case.n_writes as u64; out_bytes += r.out.len() as u64;
        tablet_events += case.log.iter().filter(|i| matches!(i, LogItem::Tab(_))).count() as u64;
        let mut kb: Vec<u8> = Vec::new(); let mut tb: Vec<u8> = Vec::new();
        for sg in &case.segments { for w in &sg.writes { if sg.dev == 'k' { kb.extend_from_slice(w); } else { tb.extend_from_slice(w); } } }
        let mut r11 = Rng::new(11);
        kb.extend_from_slice(&record(&mut r11, 1, marker as u16, 1));
        let verdict: Option<Verdict> =
          if r.status == "panic" { Some(Verdict { kind: "property", props: vec!["C14"], what: "the loop panicked".to_string() }) }
          else if r.stuck_unread > 0 { Some(Verdict { kind: "property", props: if r.stuck_tablet { vec!["C10", "C12"] } else { vec!["C10"] }, what: format!("the loop stopped reading: {} bytes that had arrived (and were notified) stayed unread while it waited{}", r.stuck_unread, if r.stuck_tablet { " (tablet-switch records among them)" } else { "" }) }) }
          else {
            let reply = lean.ask(&format!("E2EANY {} {} {}", hex(&kb), hex(&tb), hex(&r.out)));
            if reply == "ok" {
              if r.status == "no-return" || r.status == "ok" { Some(Verdict { kind: "property", props: vec!["C20"], what: format!("after the write to the virtual keyboard failed (EPIPE) the loop did not return the error: {}", r.status) }) } else { None }
            }
            else if parse_batches(&r.out).is_none() { Some(Verdict { kind: "property", props: vec!["C18"], what: "the bytes written are not a sequence of well-formed key reports".to_string() }) }
            else { Some(Verdict { kind: "property", props: vec!["C12"], what: format!("keyboard and tablet-switch records readable at the same time: the bytes written are not the outputs for ANY order of reading the two devices ({}); wrote {:?}", reply, parse_batches(&r.out).unwrap().iter().map(|x| fmt::events(x)).collect::<Vec<_>>()) }) }
          };
        if let Some(v) = verdict {
          if v.kind == "property" { violations += 1; } else { divergences += 1; }
          let same = findings.iter().filter(|f| f["kind"] == v.kind && f["properties"] == serde_json::json!(v.props) && f["concurrent"] == true).count();
          if same < 3 {
            findings.push(serde_json::json!({
              "suite": "e2e", "kind": v.kind, "properties": v.props, "what": v.what, "layout": layout_txt, "layout_json": crate::h_mapper::layout_to_json(&layout),
              "has_tablet": true, "concurrent": true, "sentinel": fmt::code(&sentinel), "marker": fmt::code(&marker),
              "segments": case.segments.iter().map(|s| serde_json::json!({"dev": s.dev.to_string(), "writes": s.writes.iter().map(|w| hex(w)).collect::<Vec<_>>(), "pauses_us": s.pauses_us})).collect::<Vec<_>>(),
              "keyboard_bytes": hex(&kb), "tablet_bytes": hex(&tb), "implementation_bytes": hex(&r.out), "closing_status": r.status, "stuck_unread_bytes": r.stuck_unread
            }));
          }
          if findings.iter().filter(|f| f["kind"] == "property").count() >= 6 || findings.len() > 40 { break 'outer; }
        }
        continue;
      }
      let arg = chunks_arg(&case.segments);
      let reply = lean.ask(&format!("E2E {}", arg));
      let parts: Vec<&str> = reply.split(' ').collect();
      if parts.len() != 3 { divergences += 1; findings.push(serde_json::json!({"suite":"e2e","kind":"divergence","properties":[],"what":format!("model reply: {}", reply),"layout":layout_txt})); continue; }
      let expect_len = if parts[0] == "-" { 0 } else { parts[0].len() / 2 };
      let r = run_real(&layout, &case.segments, expect_len, sentinel, if violations > 0 { std::cmp::min(patience, Duration::from_millis(500)) } else { patience }, tablet, None);
      cases += 1;
      records += case.segments.iter().map(|s| s.writes.iter().map(|w| w.len() / 24).sum::<usize>()).sum::<usize>() as u64;
      junk += case.junk as u64;
      writes += case.n_writes as u64;
      if tablet { tablet_runs += 1; }
      tablet_events += case.log.iter().filter(|i| matches!(i, LogItem::Tab(_))).count() as u64;
      out_bytes += r.out.len() as u64;
      let n_sends: u64 = parts[1].parse().unwrap_or(0);
      sends += n_sends;
      if case.n_writes >= 2 { multi += 1; }
      if case.max_chunk_records > 8 { big += 1; }
      max_chunk = std::cmp::max(max_chunk, case.max_chunk_records);
      if n_sends >= 2 { distinct.insert(format!("{}#{}", layout_txt, parts[2])); }
      if samples.len() < 5 && n_sends >= 2 && case.n_writes >= 2 { samples.push(format!("{} | layout {} | read log {} | {} writes (largest {} records) | {} bytes out in {} sends | closing status {}", name, layout_txt, parts[2], case.n_writes, case.max_chunk_records, r.out.len(), n_sends, r.status)); }
      // the read log the model decoded must be the one the harness meant to send (ties `decodeStream` / `decodeTabletStream` to the generator)
      let meant: Vec<String> = case.log.iter().map(|i| match i { LogItem::Key(e) => fmt::event(e), LogItem::Tab(true) => "on".to_string(), LogItem::Tab(false) => "off".to_string() }).collect();
      let meant = if meant.is_empty() { "-".to_string() } else { meant.join(",") };
      let mut verdict = judge(&layout, &case.log, tablet, parts[0], &r);
      if verdict.is_none() && meant != parts[2] {
        verdict = Some(Verdict { kind: "divergence", props: vec![], what: format!("the model's readers decode the records to {} but the events sent were {}", parts[2], meant) });
      }
      if let Some(mut v) = verdict {
        // a tablet run that goes wrong although its keyboard part alone goes right is C12's, otherwise C10's
        if v.kind == "property" && v.props == vec!["C12"] {
          let ksegs: Vec<Segment> = case.segments.iter().filter(|s| s.dev == 'k').cloned().collect();
          let klog: Vec<LogItem> = case.log.iter().filter(|i| matches!(i, LogItem::Key(_))).cloned().collect();
          let kreply = lean.ask(&format!("E2E {}", chunks_arg(&ksegs)));
          let kp: Vec<&str> = kreply.split(' ').collect();
          if kp.len() == 3 {
            let kr = run_real(&layout, &ksegs, if kp[0] == "-" { 0 } else { kp[0].len() / 2 }, sentinel, patience, false, None);
            if judge(&layout, &klog, false, kp[0], &kr).is_some() { v.props = vec!["C10"]; }
          }
        }
        if v.kind == "property" { violations += 1; } else { divergences += 1; }
        let same = findings.iter().filter(|f| f["kind"] == v.kind && f["properties"] == serde_json::json!(v.props)).count();
        if same < 4 {
          findings.push(serde_json::json!({
            "suite": "e2e", "kind": v.kind, "properties": v.props, "what": v.what, "layout": layout_txt, "layout_json": crate::h_mapper::layout_to_json(&layout),
            "has_tablet": tablet, "sentinel": fmt::code(&sentinel),
            "segments": case.segments.iter().map(|s| serde_json::json!({"dev": s.dev.to_string(), "writes": s.writes.iter().map(|w| hex(w)).collect::<Vec<_>>(), "pauses_us": s.pauses_us})).collect::<Vec<_>>(),
            "read_log": meant, "model_read_log": parts[2], "model_bytes": parts[0], "implementation_bytes": hex(&r.out), "closing_status": r.status, "stuck_unread_bytes": r.stuck_unread
          }));
        }
        // a loop that has stopped reading costs the whole patience per run: a few concrete transcripts are enough
        if findings.iter().filter(|f| f["kind"] == "property").count() >= 6 || findings.len() > 40 { break 'outer; }
      }
    }
  }
  lean.finish();

  findings.sort_by_key(|f| if f["kind"] == "property" { 0 } else { 1 });
  for (i, f) in findings.iter().enumerate() {
    let path = format!("{}/finding_{}_{}.json", out_dir, seed, i);
    std::fs::write(&path, serde_json::to_string_pretty(f).unwrap()).unwrap();
    let props: Vec<String> = f["properties"].as_array().map(|a| a.iter().map(|x| x.as_str().unwrap_or("?").to_string()).collect()).unwrap_or_default();
    println!("FINDING kind={} properties={} replay={}", f["kind"].as_str().unwrap(), if props.is_empty() { "-".to_string() } else { props.join(",") }, path);
  }
  let stats = serde_json::json!({
    "suite": "e2e", "seed": seed, "tier": if thorough { "thorough" } else { "quick" },
    "cases": cases, "distinct_nontrivial": distinct.len(),
    "rule": "each case = one run of the REAL driver (mio/epoll poll, DevInputReader, TabletModeSwitchReader, DevInputWriter) around the real loop in its own thread over pipes: input_event records (key events of a semi-well-formed history over the layout's alphabet, surrounded by MSC_SCAN / SYN_REPORT / autorepeat / unknown-code / LED records; tablet-switch On/Off and foreign switch records in 2 of 5 runs) written in random chunks of whole records at random moments; half of the tablet runs are CONCURRENT (no waiting between the two devices: both become readable while the loop is busy, the output must be the model's for some interleaving of the two per-device logs, request E2EANY), the others synchronised at every change of device (the read order is the write order); the bytes read from the uinput pipe are compared with the model's wireOut; the run is closed by an EPIPE on the uinput pipe which the loop must return. non-trivial and distinct = distinct (layout, read log) with at least two sends",
    "records_written": records, "junk_records": junk, "writes": writes, "runs_with_two_or_more_writes": multi, "runs_with_a_chunk_over_8_records": big, "largest_chunk_records": max_chunk,
    "runs_with_tablet_switch": tablet_runs, "concurrent_two_device_runs": concurrent_runs, "tablet_events": tablet_events, "output_bytes": out_bytes, "sends": sends, "tablet_records_compared_alone": tdec_checked, "full_buffer_runs": full_buffer_done, "timed_runs_on_the_real_clock": timed_stats.0, "chord_arrivals_checked_against_their_deadline": timed_stats.1, "chords_in_timed_runs": timed_stats.2, "chords_after_a_signal_judged_for_lateness": timed_stats.3, "armed_gaps_judged_for_at_least_one_chord": timed_stats.4,
    "divergences": divergences, "monitor_violations": violations, "samples": samples, "findings": findings.len()
  });
  if let Some(p) = opts.get("stats") { std::fs::write(p, serde_json::to_string_pretty(&stats).unwrap()).unwrap(); }
  println!("STATS {}", stats);
  if findings.is_empty() { 0 } else { 1 }
}

// replays a recorded e2e finding on the current tree: same layout, same writes, same pauses
pub fn replay(opts: &Opts) -> i32 {
  let path = opts.get("file").expect("--file");
  let f: serde_json::Value = serde_json::from_str(&std::fs::read_to_string(path).expect("read replay")).expect("json");
  if f["check"] == "full-buffer" { println!("replay of a full-buffer run: run the suite (tmharness e2e)"); return 2; }
  if f["check"] == "timed" { println!("replay of a timed run: timing dependent, run the suite (tmharness e2e)"); return 2; }
  if f["check"] == "tablet-record" { println!("replay of a tablet-record disagreement: run the suite"); return 2; }
  let layout = match fmt::parse_layout(f["layout"].as_str().unwrap_or("")) { Some(l) => l, None => { println!("bad layout in replay"); return 2; } };
  let segments: Vec<Segment> = f["segments"].as_array().unwrap().iter().map(|s| Segment {
    dev: s["dev"].as_str().unwrap().chars().next().unwrap(),
    writes: s["writes"].as_array().unwrap().iter().map(|w| unhex(w.as_str().unwrap())).collect(),
    pauses_us: s["pauses_us"].as_array().unwrap().iter().map(|p| p.as_u64().unwrap_or(0)).collect()
  }).collect();
  if f["concurrent"] == true {
    let sentinel = fmt::key_from_code(f["sentinel"].as_i64().unwrap_or(183)).unwrap_or(KeyCode::F13);
    let marker = fmt::key_from_code(f["marker"].as_i64().unwrap_or(184)).unwrap_or(KeyCode::F14);
    let mut lean = Lean::start();
    let _ = lean.ask(&format!("L {}", fmt::layout(&layout)));
    let mut bad = 0;
    for attempt in 0..8 {
      let r = run_real(&layout, &segments, 0, sentinel, Duration::from_millis(3000), true, Some(marker));
      let reply = if r.stuck_unread > 0 { format!("stuck with {} bytes unread", r.stuck_unread) } else { lean.ask(&format!("E2EANY {} {} {}", f["keyboard_bytes"].as_str().unwrap_or("-"), f["tablet_bytes"].as_str().unwrap_or("-"), hex(&r.out))) };
      if reply != "ok" { bad += 1; }
      println!("attempt {}: {} (closing status {})", attempt, reply, r.status);
    }
    lean.finish();
    return if bad > 0 { println!("REPLAY: fails ({} of 8 attempts)", bad); 1 } else { println!("REPLAY: passes (the run is timing dependent)"); 0 };
  }
  let has_tablet = f["has_tablet"].as_bool().unwrap_or(false);
  let sentinel = fmt::key_from_code(f["sentinel"].as_i64().unwrap_or(183)).unwrap_or(KeyCode::F13);
  let log: Vec<LogItem> = f["read_log"].as_str().unwrap_or("-").split(',').filter(|s| *s != "-" && !s.is_empty()).map(|s| match s { "on" => LogItem::Tab(true), "off" => LogItem::Tab(false), e => LogItem::Key(fmt::parse_event(e).expect("event")) }).collect();
  let mut lean = Lean::start();
  let _ = lean.ask(&format!("L {}", fmt::layout(&layout)));
  let reply = lean.ask(&format!("E2E {}", chunks_arg(&segments)));
  lean.finish();
  let parts: Vec<&str> = reply.split(' ').collect();
  if parts.len() != 3 { println!("model reply: {}", reply); return 2; }
  let mut bad = 0;
  for attempt in 0..5 {
    let r = run_real(&layout, &segments, if parts[0] == "-" { 0 } else { parts[0].len() / 2 }, sentinel, Duration::from_millis(3000), has_tablet, None);
    match judge(&layout, &log, has_tablet, parts[0], &r) {
      Some(v) => { bad += 1; println!("attempt {}: {} {:?}: {}", attempt, v.kind, v.props, v.what); println!("  model bytes          {}", parts[0]); println!("  implementation bytes {}", hex(&r.out)); },
      None => println!("attempt {}: output as predicted, closing status {}", attempt, r.status)
    }
  }
  if bad > 0 { println!("REPLAY: fails ({} of 5 attempts)", bad); 1 } else { println!("REPLAY: passes"); 0 }
}
