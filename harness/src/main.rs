// Correspondence harness for the Lean model of ellbur/totalmapper.
//
// The real sources are compiled into this binary, file by file, exactly as /repo/src/main.rs
// lists them (the crate has no lib.rs).  Hooks are enabled with --cfg ellbur_totalmapper_verif
// (see .cargo/config.toml).

#[macro_use]
extern crate enum_display_derive;

#[path = "/repo/src/key_codes.rs"] mod key_codes;
#[path = "/repo/src/events.rs"] mod events;
#[path = "/repo/src/keys.rs"] mod keys;
#[path = "/repo/src/fancy_keys.rs"] mod fancy_keys;
#[path = "/repo/src/fancy_layout_interpreting.rs"] mod fancy_layout_interpreting;
#[path = "/repo/src/key_transforms.rs"] mod key_transforms;
#[path = "/repo/src/dev_input_rw.rs"] mod dev_input_rw;
#[path = "/repo/src/struct_ser.rs"] mod struct_ser;
#[path = "/repo/src/default_fancy_layouts.rs"] mod default_fancy_layouts;
#[path = "/repo/src/remapping_loop.rs"] mod remapping_loop;
#[path = "/repo/src/keyboard_listing.rs"] mod keyboard_listing;
#[path = "/repo/src/udev_utils.rs"] mod udev_utils;
#[path = "/repo/src/layout_loading.rs"] mod layout_loading;
#[path = "/repo/src/version.rs"] mod version;
#[path = "/repo/src/monitor.rs"] mod monitor;
#[path = "/repo/src/monitor_raw.rs"] mod monitor_raw;
#[path = "/repo/src/struct_de.rs"] mod struct_de;
#[path = "/repo/src/tablet_mode_switch_reader.rs"] mod tablet_mode_switch_reader;
#[path = "/repo/src/monitor_tablet_mode.rs"] mod monitor_tablet_mode;
#[path = "/repo/src/example_hardware.rs"] mod example_hardware;
#[path = "/repo/src/layout_parsing_formatting.rs"] mod layout_parsing_formatting;
#[path = "/repo/src/char_production_map.rs"] mod char_production_map;
#[path = "/repo/src/physical_keyboard_layouts.rs"] mod physical_keyboard_layouts;

mod h_util;
mod h_lean;
mod h_fmt;
mod h_layouts;
mod h_mapper;
mod h_tables;
mod h_loop;
mod h_bytes;
mod h_escape;
mod h_listing;
mod h_load;
mod h_e2e;

fn main() {
  let args: Vec<String> = std::env::args().collect();
  if args.len() < 2 {
    eprintln!("usage: tmharness <suite> [--key value]...");
    std::process::exit(2);
  }
  let opts = h_util::Opts::parse(&args[2..]);
  let code = match args[1].as_str() {
    "mapper" => h_mapper::run(&opts),
    "replay-mapper" => h_mapper::replay(&opts),
    "gen-tables" => h_tables::run(&opts),
    "loop" => h_loop::run(&opts),
    "replay-loop" => h_loop::replay(&opts),
    "bytes" => h_bytes::run(&opts),
    "replay-bytes" => h_bytes::replay(&opts),
    "escape" => h_escape::run(&opts),
    "replay-escape" => h_escape::replay(&opts),
    "listing" => h_listing::run(&opts),
    "replay-listing" => h_listing::replay(&opts),
    "load" => h_load::run(&opts),
    "replay-load" => h_load::replay(&opts),
    "e2e" => h_e2e::run(&opts),
    "replay-e2e" => h_e2e::replay(&opts),
    other => {
      eprintln!("unknown suite {}", other);
      2
    }
  };
  std::process::exit(code);
}
